#!/bin/sh
# usage: check.sh <PROPERTY> <quick|thorough>
cd /verif || exit 2
export GOFLAGS=-mod=mod GOPROXY=off GOSUMDB=off GOTOOLCHAIN=local
if [ ! -x /verif/bin/gosmt ]; then
  (cd /verif/engine && go build -o /verif/bin/gosmt ./cmd/gosmt) || { echo "INCONCLUSIVE property=$1 reason=engine build failed"; exit 2; }
fi
exec /verif/bin/gosmt check "$1" --tier "${2:-quick}"
