package main

import (
	"bufio"
	"bytes"
	"crypto/sha1"
	"encoding/json"
	"flag"
	"fmt"
	"os"
	"os/exec"
	"path/filepath"
	"regexp"
	"sort"
	"strings"
	"sync"
	"time"

	"verif/engine/interp"
)

var harnessDirs = map[string]string{
	".":                         "harness",
	"cmd/protoc-gen-connect-go": "harness/cmd_protoc-gen-connect-go",
}

var reHarness = regexp.MustCompile(`(?m)^//verif:harness(.*)\n(?://.*\n)*func (\w+)\(`)

func scanHarnesses() ([]*HarnessInfo, error) {
	var out []*HarnessInfo
	for pkgDir, sub := range harnessDirs {
		dir := filepath.Join(verifDir, sub)
		ents, err := os.ReadDir(dir)
		if err != nil {
			continue
		}
		for _, e := range ents {
			if e.IsDir() || !strings.HasSuffix(e.Name(), ".go") {
				continue
			}
			data, err := os.ReadFile(filepath.Join(dir, e.Name()))
			if err != nil {
				return nil, err
			}
			for _, m := range reHarness.FindAllStringSubmatch(string(data), -1) {
				hi := &HarnessInfo{Name: m[2], Opts: map[string]string{}, File: filepath.Join(dir, e.Name()), PkgDir: pkgDir}
				for _, kv := range strings.Fields(m[1]) {
					k, v, _ := strings.Cut(kv, "=")
					switch k {
					case "property":
						hi.Property = v
					case "tiers":
						hi.Tiers = strings.Split(v, ",")
					case "ints":
						hi.LIA = v == "lia"
					default:
						hi.Opts[k] = v
					}
				}
				if len(hi.Tiers) == 0 {
					hi.Tiers = []string{"quick", "thorough"}
				}
				out = append(out, hi)
			}
		}
	}
	sort.Slice(out, func(i, j int) bool { return out[i].Name < out[j].Name })
	return out, nil
}

func loadKnown() []interp.KnownFinding {
	data, err := os.ReadFile(filepath.Join(verifDir, "known_findings.json"))
	if err != nil {
		return nil
	}
	var f struct {
		Findings []interp.KnownFinding `json:"findings"`
	}
	if json.Unmarshal(data, &f) != nil {
		return nil
	}
	return f.Findings
}

func selfExe() string {
	p, err := os.Executable()
	if err != nil {
		return os.Args[0]
	}
	return p
}

type replayItem struct {
	ID      string         `json:"id"`
	Harness string         `json:"harness"`
	Tier    int            `json:"tier"`
	Model   map[string]any `json:"model"`
}

type replayResult struct {
	ID       string   `json:"id"`
	Status   string   `json:"status"`
	Failures []string `json:"failures"`
	Events   []string `json:"events"`
	Panic    string   `json:"panic"`
}

// nativeReplay runs the items against the real build of /repo's current tree.
func nativeReplay(pkgDir string, items []replayItem, tmp string, race ...bool) (map[string]replayResult, string, error) {
	files, err := harnessFiles(pkgDir, true)
	if err != nil {
		return nil, "", err
	}
	hs, _ := scanHarnesses()
	var tb strings.Builder
	pkgName := "connect"
	if pkgDir != "." {
		pkgName = "main"
	}
	fmt.Fprintf(&tb, "package %s\n\nimport \"testing\"\n\nfunc TestVerifReplay(t *testing.T) {\n\tverifReplayAll(map[string]func(){\n", pkgName)
	for _, h := range hs {
		if h.PkgDir == pkgDir {
			fmt.Fprintf(&tb, "\t\t%q: %s,\n", h.Name, h.Name)
		}
	}
	tb.WriteString("\t})\n}\n")
	testFile := filepath.Join(tmp, "zz_verif_replay_test.go")
	if err := os.WriteFile(testFile, []byte(tb.String()), 0o644); err != nil {
		return nil, "", err
	}
	ov := map[string]map[string]string{"Replace": {}}
	for realp, virt := range files {
		ov["Replace"][virt] = realp
	}
	ov["Replace"][filepath.Join(repoDir, pkgDir, "zz_verif_replay_test.go")] = testFile
	ovData, _ := json.Marshal(ov)
	ovFile := filepath.Join(tmp, "overlay.json")
	os.WriteFile(ovFile, ovData, 0o644)
	listFile := filepath.Join(tmp, "replay_list.json")
	ld, _ := json.Marshal(items)
	os.WriteFile(listFile, ld, 0o644)
	pattern := "."
	if pkgDir != "." {
		pattern = "./" + pkgDir
	}
	// -tags verif enables /repo's verification hook (pooled buffers are
	// poisoned on release), see MANIFEST.hooks.
	goArgs := []string{"test", "-tags", "verif", "-overlay", ovFile, "-vet=off", "-count=1", "-run", "^TestVerifReplay$", "-timeout", "900s", "-v"}
	if len(race) > 0 && race[0] {
		// data-race candidates are confirmed by Go's own race detector
		goArgs = append(goArgs, "-race")
	}
	cmd := exec.Command("go", append(goArgs, pattern)...)
	cmd.Dir = repoDir
	cmd.Env = append(os.Environ(), "GOFLAGS=-mod=mod", "GOPROXY=off", "GOSUMDB=off", "GOTOOLCHAIN=local", "CGO_ENABLED=1", "GORACE=halt_on_error=0", "VERIF_REPLAY_LIST="+listFile)
	var outb bytes.Buffer
	cmd.Stdout = &outb
	cmd.Stderr = &outb
	runErr := cmd.Run()
	res := map[string]replayResult{}
	sc := bufio.NewScanner(&outb)
	sc.Buffer(make([]byte, 1<<20), 1<<26)
	var other []string
	for sc.Scan() {
		line := sc.Text()
		if i := strings.Index(line, "VERIF-REPLAY-RESULT "); i >= 0 {
			var r replayResult
			if json.Unmarshal([]byte(line[i+len("VERIF-REPLAY-RESULT "):]), &r) == nil {
				res[r.ID] = r
			}
			continue
		}
		other = append(other, line)
	}
	logText := strings.Join(other, "\n")
	if len(res) < len(items) {
		return res, logText, fmt.Errorf("native replay produced %d of %d results (err=%v)", len(res), len(items), runErr)
	}
	return res, logText, nil
}

func modelID(h string, m map[string]any) string {
	d, _ := json.Marshal(m)
	return fmt.Sprintf("%s-%x", h, sha1.Sum(d))[:len(h)+13]
}

func sameEvents(a, b []string) bool {
	if len(a) != len(b) {
		return false
	}
	for i := range a {
		if a[i] != b[i] {
			return false
		}
	}
	return true
}

func cmdCheck(args []string) int {
	fs := flag.NewFlagSet("check", flag.ExitOnError)
	tier := fs.String("tier", "", "quick|thorough")
	only := fs.String("only", "", "run only this harness")
	keep := fs.Bool("keep", false, "keep scratch dir")
	jobs := fs.Int("j", 12, "parallel harness runs")
	noEvidence := fs.Bool("noevidence", false, "do not (re)write the evidence file (used when checking scratch trees)")
	var prop string
	if len(args) > 0 && !strings.HasPrefix(args[0], "-") {
		prop = args[0]
		args = args[1:]
	}
	fs.Parse(args)
	if *tier == "" {
		*tier = os.Getenv("VERIF_TIER")
	}
	if *tier == "" {
		*tier = "quick"
	}
	start := time.Now()
	hs, err := scanHarnesses()
	if err != nil {
		fmt.Println("INCONCLUSIVE property=" + prop + " reason=" + err.Error())
		return 2
	}
	var sel []*HarnessInfo
	for _, h := range hs {
		if h.Property != prop {
			continue
		}
		if *only != "" && h.Name != *only {
			continue
		}
		ok := false
		for _, t := range h.Tiers {
			ok = ok || t == *tier
		}
		if ok {
			sel = append(sel, h)
		}
	}
	if len(sel) == 0 {
		fmt.Printf("INCONCLUSIVE property=%s reason=no harness registered for tier %s\n", prop, *tier)
		return 2
	}
	tmp, err := os.MkdirTemp("", "gosmt-"+prop+"-")
	if err != nil {
		fmt.Println("INCONCLUSIVE property=" + prop + " reason=" + err.Error())
		return 2
	}
	if !*keep {
		defer os.RemoveAll(tmp)
	}
	solvers := []string{"portfolio"}
	if *tier == "thorough" {
		solvers = []string{"portfolio", "z3-new", "cvc5"}
	}
	timeoutMs := "20000"
	if *tier == "thorough" {
		timeoutMs = "60000"
	}
	type job struct {
		h      *HarnessInfo
		solver string
		out    string
		res    *RunResult
		log    string
		force  string
	}
	var jobsList []*job
	for _, h := range sel {
		for _, s := range solvers {
			if c := h.Opts["cross"]; s != "portfolio" && c != "" {
				// cross=off: no second opinion; cross=<solver>[+<solver>]: only those
				if c == "off" || !strings.Contains("+"+c+"+", "+"+s+"+") {
					continue
				}
			}
			// shard=name:n splits the harness over the values of a nondetChoice
			if sh := h.Opts["shard"]; sh != "" {
				name, ns, _ := strings.Cut(sh, ":")
				var n int
				fmt.Sscan(ns, &n)
				for i := 0; i < n; i++ {
					jobsList = append(jobsList, &job{h: h, solver: s, force: fmt.Sprintf("%s=%d", name, i),
						out: filepath.Join(tmp, fmt.Sprintf("%s.%s.%d.json", h.Name, s, i))})
				}
				continue
			}
			jobsList = append(jobsList, &job{h: h, solver: s, out: filepath.Join(tmp, h.Name+"."+s+".json")})
		}
	}
	sem := make(chan struct{}, *jobs)
	var wg sync.WaitGroup
	for _, j := range jobsList {
		wg.Add(1)
		go func(j *job) {
			defer wg.Done()
			sem <- struct{}{}
			defer func() { <-sem }()
			cmd := exec.Command(selfExe(), "run", j.h.Name, "--tier", *tier, "--out", j.out, "--pkgdir", j.h.PkgDir, "--solver", j.solver, "--timeout", timeoutMs, "--force", j.force)
			var ob bytes.Buffer
			cmd.Stdout = &ob
			cmd.Stderr = &ob
			cmd.Run()
			j.log = ob.String()
			data, err := os.ReadFile(j.out)
			r := &RunResult{Harness: j.h.Name, Tier: *tier, Solver: j.solver}
			if err != nil || json.Unmarshal(data, r) != nil {
				r.Inconcl = append(r.Inconcl, "harness run produced no result: "+lastLines(j.log, 8))
			}
			j.res = r
		}(j)
	}
	wg.Wait()

	primary := map[string]*RunResult{}
	var inconcl []string
	// merge shards
	merged := map[string]*job{}
	var mergedList []*job
	for _, j := range jobsList {
		key := j.h.Name + "|" + j.solver
		if m, ok := merged[key]; ok {
			mergeResult(m.res, j.res)
			continue
		}
		merged[key] = j
		mergedList = append(mergedList, j)
	}
	jobsList = mergedList
	for _, j := range jobsList {
		fixWitnessInconcl(j.res)
	}
	for _, j := range jobsList {
		if j.solver == "portfolio" {
			primary[j.h.Name] = j.res
			for _, m := range j.res.Inconcl {
				inconcl = append(inconcl, j.h.Name+": "+m)
			}
		}
	}
	// cross-solver agreement (thorough tier)
	for _, j := range jobsList {
		if j.solver == "portfolio" {
			continue
		}
		p := primary[j.h.Name]
		if p.Cross == nil {
			p.Cross = map[string]CrossStat{}
		}
		cs := CrossStat{Queries: j.res.Queries, Unknown: j.res.Unknown, SolverSec: j.res.SolverSec}
		if len(j.res.Inconcl) > 0 {
			// a single back end that cannot decide some query (unknown/timeout)
			// gives no second opinion; that is recorded, not an alarm.
			cs.Unknown++
			p.Cross[j.solver] = cs
			continue
		}
		if violationKeys(j.res) != violationKeys(p) || j.res.Discharged != p.Discharged || j.res.Paths != p.Paths {
			cs.Disagree = 1
			inconcl = append(inconcl, fmt.Sprintf("%s: solver %s disagrees with the portfolio run (paths %d/%d discharged %d/%d violations %q/%q)",
				j.h.Name, j.solver, j.res.Paths, p.Paths, j.res.Discharged, p.Discharged, violationKeys(j.res), violationKeys(p)))
		}
		p.Cross[j.solver] = cs
	}

	// native replays: violation candidates + witnesses, batched per package dir
	byDir := map[string][]replayItem{}
	tierN := 0
	if *tier == "thorough" {
		tierN = 1
	}
	type pend struct {
		kind    string // "violation" | "witness"
		harness string
		v       *interp.Violation
		w       *interp.Witness
		pkgDir  string
	}
	pending := map[string]*pend{}
	var raceItems []replayItem
	for _, h := range sel {
		r := primary[h.Name]
		for i := range r.Violations {
			v := &r.Violations[i]
			id := "V-" + modelID(h.Name, v.Model) + fmt.Sprintf("-%d", i)
			pending[id] = &pend{kind: "violation", harness: h.Name, v: v, pkgDir: h.PkgDir}
			if isRaceMsg(v.Msg) {
				raceItems = append(raceItems, replayItem{ID: id, Harness: h.Name, Tier: tierN, Model: v.Model})
				continue
			}
			byDir[h.PkgDir] = append(byDir[h.PkgDir], replayItem{ID: id, Harness: h.Name, Tier: tierN, Model: v.Model})
		}
		nw := 0
		for _, w := range r.Witnesses {
			if nw >= 4 {
				break
			}
			nw++
			id := "W-" + modelID(h.Name, w.Model) + fmt.Sprintf("-%d", nw)
			pending[id] = &pend{kind: "witness", harness: h.Name, w: w, pkgDir: h.PkgDir}
			byDir[h.PkgDir] = append(byDir[h.PkgDir], replayItem{ID: id, Harness: h.Name, Tier: tierN, Model: w.Model})
		}
	}
	replayed := map[string]replayResult{}
	replayStart := time.Now()
	for dir, items := range byDir {
		if h := sel[0]; h.Opts["replay"] == "off" {
			break
		}
		rr, logText, err := nativeReplay(dir, items, tmp)
		for k, v := range rr {
			replayed[k] = v
		}
		if err != nil {
			inconcl = append(inconcl, "native replay: "+err.Error()+": "+lastLines(logText, 12))
		}
	}
	// data-race candidates: one `go test -race` run each (at most six), so that
	// a report of Go's race detector can be attributed to its candidate
	raceLogs := map[string]string{}
	seenRaceMsg := map[string]bool{}
	for _, it := range raceItems {
		p := pending[it.ID]
		if seenRaceMsg[p.v.Msg] || len(seenRaceMsg) >= 6 {
			delete(pending, it.ID)
			continue
		}
		seenRaceMsg[p.v.Msg] = true
		// the native schedule is the Go runtime's: up to four attempts
		for attempt := 0; attempt < 4; attempt++ {
			rr, logText, err := nativeReplay(p.pkgDir, []replayItem{it}, tmp, true)
			for k, v := range rr {
				replayed[k] = v
			}
			raceLogs[it.ID] = logText
			if err != nil && len(rr) == 0 {
				inconcl = append(inconcl, "native race replay: "+err.Error()+": "+lastLines(logText, 12))
				break
			}
			if raceReportMatches(logText, p.v.Msg) {
				break
			}
		}
	}
	replaySec := time.Since(replayStart).Seconds()

	confirmed := 0
	witnessOK := 0
	var violLines, knownLines []string
	replayDir := filepath.Join(verifDir, "replays", prop)
	for id, p := range pending {
		rr, ok := replayed[id]
		if !ok {
			continue
		}
		switch p.kind {
		case "witness":
			if rr.Status == "ok" && (sameEvents(rr.Events, p.w.Events) || harnessOpt(sel, p.harness, "witness") == "statusonly") {
				witnessOK++
			} else {
				inconcl = append(inconcl, fmt.Sprintf("%s: witness for %q does not replay natively (status %s %s; events native=%v symbolic=%v): encoder/model mismatch",
					p.harness, p.w.Site, rr.Status, rr.Panic, rr.Events, p.w.Events))
			}
		case "violation":
			repro := false
			if isRaceMsg(p.v.Msg) {
				repro = raceReportMatches(raceLogs[id], p.v.Msg)
			} else if strings.HasPrefix(p.v.Msg, "panic: ") {
				repro = rr.Status == "panic" || rr.Status == "timeout"
			} else {
				for _, f := range rr.Failures {
					repro = repro || f == p.v.Msg
				}
			}
			if !repro {
				inconcl = append(inconcl, fmt.Sprintf("%s: counterexample for %q does not reproduce natively (status %s %s failures=%v): encoder/model mismatch, not reported as violation",
					p.harness, p.v.Msg, rr.Status, rr.Panic, rr.Failures))
				continue
			}
			confirmed++
			if p.v.Known != "" {
				knownLines = append(knownLines, fmt.Sprintf("KNOWN-FINDING: property=%s %s [%s: %s]", prop, p.v.Known, p.harness, p.v.Msg))
				continue
			}
			os.MkdirAll(replayDir, 0o755)
			path := filepath.Join(replayDir, id+".json")
			data, _ := json.MarshalIndent(map[string]any{"property": prop, "harness": p.harness, "pkgdir": p.pkgDir, "tier": tierN, "check": p.v.Msg, "model": p.v.Model, "events": p.v.Events}, "", " ")
			os.WriteFile(path, data, 0o644)
			violLines = append(violLines, fmt.Sprintf("VIOLATION property=%s replay=%s", prop, path))
			fmt.Printf("  counterexample: harness=%s check=%q model=%s\n", p.harness, p.v.Msg, compactJSON(p.v.Model))
		}
	}
	sort.Strings(violLines)
	sort.Strings(knownLines)

	wall := time.Since(start).Seconds()
	if !*noEvidence {
		writeEvidence(prop, *tier, sel, primary, inconcl, len(violLines), len(knownLines), witnessOK, confirmed, wall, replaySec)
	}

	for _, l := range knownLines {
		fmt.Println(l)
	}
	for _, h := range sel {
		r := primary[h.Name]
		fmt.Printf("  %-40s paths=%-5d obligations=%-5d discharged=%-5d queries=%-6d solver=%.1fs wall=%.1fs\n", h.Name, r.Paths, r.Obligations, r.Discharged, r.Queries, r.SolverSec, r.WallSec)
	}
	if len(violLines) > 0 {
		for _, l := range violLines {
			fmt.Println(l)
		}
		return 1
	}
	if len(inconcl) > 0 {
		for _, m := range inconcl {
			fmt.Printf("INCONCLUSIVE property=%s reason=%s\n", prop, oneLine(m))
		}
		return 2
	}
	fmt.Printf("OK property=%s tier=%s harnesses=%d witnesses_replayed=%d wall=%.1fs\n", prop, *tier, len(sel), witnessOK, wall)
	return 0
}

func violationKeys(r *RunResult) string {
	var ks []string
	for _, v := range r.Violations {
		ks = append(ks, v.Msg)
	}
	sort.Strings(ks)
	return strings.Join(ks, "|")
}

func compactJSON(v any) string {
	d, _ := json.Marshal(v)
	return string(d)
}

func oneLine(s string) string {
	s = strings.ReplaceAll(s, "\n", " / ")
	if len(s) > 600 {
		s = s[:600] + "..."
	}
	return s
}

func lastLines(s string, n int) string {
	lines := strings.Split(strings.TrimSpace(s), "\n")
	if len(lines) > n {
		lines = lines[len(lines)-n:]
	}
	return strings.Join(lines, " / ")
}

func cmdReplay(args []string) int {
	if len(args) < 1 {
		usage()
	}
	data, err := os.ReadFile(args[0])
	if err != nil {
		fmt.Println(err)
		return 2
	}
	var v struct {
		Property string         `json:"property"`
		Harness  string         `json:"harness"`
		PkgDir   string         `json:"pkgdir"`
		Tier     int            `json:"tier"`
		Check    string         `json:"check"`
		Model    map[string]any `json:"model"`
	}
	if err := json.Unmarshal(data, &v); err != nil {
		fmt.Println(err)
		return 2
	}
	if v.PkgDir == "" {
		v.PkgDir = "."
	}
	tmp, _ := os.MkdirTemp("", "gosmt-replay-")
	defer os.RemoveAll(tmp)
	rr, logText, err := nativeReplay(v.PkgDir, []replayItem{{ID: "R", Harness: v.Harness, Tier: v.Tier, Model: v.Model}}, tmp, isRaceMsg(v.Check))
	if err != nil && !(isRaceMsg(v.Check) && len(rr) > 0) {
		fmt.Println("replay error:", err, logText)
		return 2
	}
	r := rr["R"]
	fmt.Printf("native replay of %s: status=%s failures=%v panic=%q\n", v.Harness, r.Status, r.Failures, r.Panic)
	if isRaceMsg(v.Check) {
		if raceReportMatches(logText, v.Check) {
			fmt.Println("go test -race reports the same pair of accesses")
			fmt.Printf("VIOLATION property=%s replay=%s\n", v.Property, args[0])
			return 1
		}
		fmt.Println("not reproduced")
		return 0
	}
	for _, f := range r.Failures {
		if f == v.Check {
			fmt.Printf("VIOLATION property=%s replay=%s\n", v.Property, args[0])
			return 1
		}
	}
	if strings.HasPrefix(v.Check, "panic: ") && (r.Status == "panic" || r.Status == "timeout") {
		fmt.Printf("VIOLATION property=%s replay=%s\n", v.Property, args[0])
		return 1
	}
	fmt.Println("not reproduced")
	return 0
}

func harnessOpt(sel []*HarnessInfo, name, key string) string {
	for _, h := range sel {
		if h.Name == name {
			return h.Opts[key]
		}
	}
	return ""
}

// mergeResult folds the result of another shard of the same harness into a.
func mergeResult(a, b *RunResult) {
	a.Paths += b.Paths
	a.PathsDone += b.PathsDone
	a.Infeasible += b.Infeasible
	a.Steps += b.Steps
	a.Queries += b.Queries
	a.Sat += b.Sat
	a.Unsat += b.Unsat
	a.Unknown += b.Unknown
	a.SolverSec += b.SolverSec
	if b.MaxQuerySec > a.MaxQuerySec {
		a.MaxQuerySec = b.MaxQuerySec
	}
	if b.WallSec > a.WallSec {
		a.WallSec = b.WallSec
	}
	a.Obligations += b.Obligations
	a.Discharged += b.Discharged
	if b.Race != nil {
		if a.Race == nil {
			a.Race = &RaceStat{}
		}
		a.Race.Accesses += b.Race.Accesses
		a.Race.Skipped += b.Race.Skipped
		a.Race.Syncs += b.Race.Syncs
	}
	if a.CheckSites == nil {
		a.CheckSites = map[string]int{}
	}
	for k, v := range b.CheckSites {
		a.CheckSites[k] += v
	}
	a.Violations = append(a.Violations, b.Violations...)
	have := map[string]bool{}
	for _, w := range a.Witnesses {
		have[w.Site] = true
	}
	for _, w := range b.Witnesses {
		if !have[w.Site] {
			a.Witnesses = append(a.Witnesses, w)
		}
	}
	for _, m := range b.Inconcl {
		// a check site unreachable in one shard may be reached in another
		if strings.HasPrefix(m, "no reachability witness") {
			continue
		}
		a.Inconcl = append(a.Inconcl, m)
	}
	if a.Functions == nil {
		a.Functions = map[string]int{}
	}
	for k, v := range b.Functions {
		a.Functions[k] = v
	}
	if a.Intrinsics == nil {
		a.Intrinsics = map[string]int{}
	}
	for k, v := range b.Intrinsics {
		a.Intrinsics[k] += v
	}
	for k, v := range b.Bounds {
		if a.Bounds == nil {
			a.Bounds = map[string]int64{}
		}
		a.Bounds[k] = v
	}
	a.Samples = append(a.Samples, b.Samples...)
	if a.Doc == "" {
		a.Doc = b.Doc
	}
}

func fixWitnessInconcl(r *RunResult) {
	var keep []string
	for _, m := range r.Inconcl {
		if !strings.HasPrefix(m, "no reachability witness") {
			keep = append(keep, m)
		}
	}
	have := map[string]bool{}
	for _, w := range r.Witnesses {
		have[w.Site] = true
	}
	if len(r.Violations) == 0 {
		for site := range r.CheckSites {
			if !have[site] {
				keep = append(keep, "no reachability witness for check site: "+site)
			}
		}
	}
	r.Inconcl = keep
}

func isRaceMsg(msg string) bool { return strings.HasPrefix(msg, "data race: ") }

var raceSiteRe = regexp.MustCompile(`(?:read|write) in (\S+)(?: (\S+\.go:\d+))?`)

// raceReportMatches reports whether the output of a `go test -race` run has a
// DATA RACE report between two accesses made by code of the tree under test
// (the innermost frame of neither access is in a harness file) that involves
// at least one of the two access sites of the symbolic candidate (by
// file:line where the SSA instruction has a position, else by function).
// The native schedule is the Go runtime's, so the partner access it catches
// may be another unsynchronised access to the same variable.
func raceReportMatches(logText, msg string) bool {
	var tokens []string
	for _, m := range raceSiteRe.FindAllStringSubmatch(msg, -1) {
		if m[2] != "" {
			tokens = append(tokens, "/"+m[2]+" ")
			continue
		}
		name := m[1]
		if i := strings.LastIndex(name, "."); i >= 0 {
			name = name[i+1:]
		}
		if i := strings.Index(name, "$"); i >= 0 {
			name = name[:i]
		}
		tokens = append(tokens, "."+name+"(")
	}
	if len(tokens) < 2 {
		return false
	}
	for _, block := range strings.Split(logText, "WARNING: DATA RACE")[1:] {
		if i := strings.Index(block, "=================="); i >= 0 {
			block = block[:i]
		}
		if i := strings.Index(block, "\nGoroutine "); i >= 0 {
			block = block[:i] // only the two access stacks
		}
		// innermost frames of the two accesses: the file line after each
		// "... at 0x... by goroutine N:" header
		lines := strings.Split(block, "\n")
		harnessTop := false
		tops := 0
		for i, l := range lines {
			if strings.Contains(l, " by goroutine ") && i+2 < len(lines) {
				tops++
				if strings.Contains(lines[i+2], "/zz_verif_") {
					harnessTop = true
				}
			}
		}
		if tops < 2 || (harnessTop && os.Getenv("GOSMT_RACE_ALL") != "1") {
			continue
		}
		for _, t := range tokens {
			if strings.Contains(block+" ", t) {
				return true
			}
		}
	}
	return false
}
