package main

import (
	"encoding/json"
	"fmt"
	"os"
	"path/filepath"
	"sort"
	"strings"
)

func writeEvidence(prop, tier string, sel []*HarnessInfo, res map[string]*RunResult, inconcl []string,
	violations, known, witnessOK, confirmed int, wall, replaySec float64) {
	var paths, queries, sat, unsat, unknown, obligations, discharged int
	var steps int64
	var solverSec float64
	fnSet := map[string]int{}
	intrSet := map[string]int{}
	bounds := map[string]int64{}
	var samples []any
	var perHarness []any
	var assumptions []string
	for _, h := range sel {
		r := res[h.Name]
		paths += r.Paths
		steps += r.Steps
		queries += r.Queries
		sat += r.Sat
		unsat += r.Unsat
		unknown += r.Unknown
		obligations += r.Obligations
		discharged += r.Discharged
		solverSec += r.SolverSec
		for f, n := range r.Functions {
			fnSet[f] += n
		}
		for f, n := range r.Intrinsics {
			intrSet[f] += n
		}
		for k, v := range r.Bounds {
			bounds[h.Name+"."+k] = v
		}
		ph := map[string]any{
			"harness": h.Name, "doc": strings.TrimSpace(r.Doc), "paths": r.Paths, "paths_completed": r.PathsDone,
			"infeasible_paths": r.Infeasible, "ssa_instructions": r.Steps, "queries": r.Queries, "sat": r.Sat, "unsat": r.Unsat,
			"unknown": r.Unknown, "obligations": r.Obligations, "discharged": r.Discharged, "solver_s": r.SolverSec,
			"max_query_s": r.MaxQuerySec, "wall_s": r.WallSec, "check_sites": r.CheckSites, "ints": map[bool]string{true: "LIA (Int with explicit wrap)", false: "bit-vectors"}[r.LIA],
			"bounds": r.Bounds, "violation_candidates": len(r.Violations),
		}
		if r.Cross != nil {
			ph["cross_check"] = r.Cross
		}
		if r.Race != nil {
			ph["race_monitor"] = r.Race
		}
		perHarness = append(perHarness, ph)
		if len(r.Witnesses) > 0 && len(samples) < 6 {
			w := r.Witnesses[0]
			samples = append(samples, map[string]any{"kind": "reachability witness (solver model, replayed natively)", "harness": h.Name, "site": w.Site, "model": w.Model, "events": w.Events})
		}
		if len(r.Samples) > 0 && len(samples) < 8 {
			q := r.Samples[0]
			if len(q) > 1500 {
				q = q[:1500] + "..."
			}
			samples = append(samples, map[string]any{"kind": "obligation query (negated property under path condition; term definitions omitted)", "harness": h.Name, "smtlib": q})
		}
		for _, v := range r.Violations {
			if len(samples) < 12 {
				samples = append(samples, map[string]any{"kind": "counterexample candidate", "harness": h.Name, "check": v.Msg, "model": v.Model, "known_finding": v.Known})
			}
		}
	}
	if len(samples) == 0 {
		samples = append(samples, map[string]any{"kind": "none", "note": "no harness produced a witness"})
	}
	var repoFns, libFns []string
	for f := range fnSet {
		if strings.Contains(f, "bufbuild/connect-go") {
			repoFns = append(repoFns, f)
		} else {
			libFns = append(libFns, f)
		}
	}
	sort.Strings(repoFns)
	sort.Strings(libFns)
	var intr []string
	for f := range intrSet {
		intr = append(intr, f)
	}
	sort.Strings(intr)
	assumptions = append(assumptions,
		"bounded: only inputs within the bounds listed under coverage.bounds / per_harness are covered; nothing is claimed outside them",
		"lengths of byte strings, map shapes, dynamic types and control flow are case-split into paths; all scalar values (bytes, integers, flags) stay symbolic and are decided by the SMT solver",
		"standard-library functions listed under coverage.intrinsics are engine models or harness stubs (trusted); all other library code on the explored paths is interpreted from its own SSA",
		"native replay validates one reachability witness per check site (up to 4 per harness) and every counterexample before it is reported",
	)
	hasRace, hasSched := false, false
	for _, h := range sel {
		if r := res[h.Name]; r != nil && r.Race != nil {
			hasRace = true
		}
		if h.Opts["sched"] == "explore" {
			hasSched = true
		}
	}
	if hasSched {
		assumptions = append(assumptions, "goroutines run under a deterministic cooperative scheduler; harnesses marked sched=explore explore the schedules that deviate from the default one in at most preempt (quick) / preemptT (thorough) scheduling points; other schedules are outside")
	}
	if hasRace {
		assumptions = append(assumptions, "race_monitor: a vector-clock happens-before monitor over the explored executions (go, channel, select, Mutex, Once, WaitGroup, atomic and sync.Pool operations order accesses as the Go memory model does, coarser for channels); only accesses made by library code (and standard-library code it calls) are checked; candidates are confirmed with go test -race before being reported")
	}
	ev := map[string]any{
		"property_id": prop,
		"tier":        tier,
		"seed":        seed(),
		"level":       "model_checking",
		"coverage": map[string]any{
			"states":                        max1(paths),
			"transitions":                   max1(int(steps)),
			"traces_validated_against_impl": witnessOK + confirmed,
			"samples":                       samples,
			"obligations":                   obligations,
			"discharged":                    discharged,
			"explanation": "bounded symbolic execution of /repo's SSA (go/ssa, regenerated from the working tree on this run); states = explored paths, transitions = SSA instructions executed symbolically, " +
				"obligations = check() queries (path-condition AND NOT property), discharged = those answered unsat",
			"solver_queries":           queries,
			"solver_sat":               sat,
			"solver_unsat":             unsat,
			"solver_unknown":           unknown,
			"solver_time_s":            round2(solverSec),
			"native_replay_s":          round2(replaySec),
			"functions_encoded":        repoFns,
			"library_functions_interpreted": len(libFns),
			"intrinsics":               intr,
			"bounds":                   bounds,
			"per_harness":              perHarness,
			"inconclusive":             inconcl,
			"known_findings_reported":  known,
			"exhaustive":               false,
		},
		"assumptions": assumptions,
		"wall_s":      round2(wall),
		"violations":  violations,
	}
	data, _ := json.MarshalIndent(ev, "", " ")
	dir := filepath.Join(verifDir, "evidence")
	os.MkdirAll(dir, 0o755)
	if err := os.WriteFile(filepath.Join(dir, prop+".json"), data, 0o644); err != nil {
		fmt.Fprintln(os.Stderr, "evidence:", err)
	}
}

func max1(n int) int {
	if n < 1 {
		return 1
	}
	return n
}

func round2(f float64) float64 { return float64(int(f*100)) / 100 }

func seed() int {
	var s int
	fmt.Sscan(os.Getenv("VERIF_SEED"), &s)
	return s
}
