package main

import (
	"fmt"
	"go/ast"
	"os"
	"path/filepath"
	"sort"
	"strings"

	"golang.org/x/tools/go/packages"
	"golang.org/x/tools/go/ssa"
	"golang.org/x/tools/go/ssa/ssautil"
)

// repoDir is the tree under check: /repo, unless VERIF_REPO points at a
// scratch worktree (used to run the checks against seeded changes without
// touching /repo).
var repoDir = func() string {
	if d := os.Getenv("VERIF_REPO"); d != "" {
		return d
	}
	return "/repo"
}()

var verifDir = func() string {
	if d := os.Getenv("VERIF_DIR"); d != "" {
		return d
	}
	return "/verif"
}()

// HarnessInfo is parsed from the doc comment of a harness function:
//
//	//verif:harness property=C18 tiers=quick,thorough ints=lia opts=poolany
type HarnessInfo struct {
	Name     string
	Property string
	Tiers    []string
	LIA      bool
	Opts     map[string]string
	File     string
	Doc      string
	PkgDir   string // directory (relative to repo) of the package it lives in
}

type loaded struct {
	prog      *ssa.Program
	pkg       *ssa.Package
	ppkg      *packages.Package
	harnesses map[string]*HarnessInfo
	stubs     map[string]string // library function -> harness function name
	overlay   map[string][]byte
	files     []string // harness source files (real paths)
}

// harnessFiles returns real path -> virtual path in the repo for package dir pkgDir.
func harnessFiles(pkgDir string, native bool) (map[string]string, error) {
	sub := "harness"
	if pkgDir != "." && pkgDir != "" {
		sub = filepath.Join("harness", strings.ReplaceAll(pkgDir, "/", "_"))
	}
	dir := filepath.Join(verifDir, sub)
	ents, err := os.ReadDir(dir)
	if err != nil {
		return nil, err
	}
	out := map[string]string{}
	for _, e := range ents {
		n := e.Name()
		if e.IsDir() {
			continue
		}
		var virt string
		switch {
		case strings.HasSuffix(n, "_decl.go.txt"):
			if native {
				continue
			}
			virt = "zz_verif_" + strings.TrimSuffix(n, ".txt")
		case strings.HasSuffix(n, "_native.go.txt"):
			if !native {
				continue
			}
			virt = "zz_verif_" + strings.TrimSuffix(n, ".txt")
		case strings.HasSuffix(n, ".go"):
			virt = "zz_verif_" + n
		default:
			continue
		}
		out[filepath.Join(dir, n)] = filepath.Join(repoDir, pkgDir, virt)
	}
	return out, nil
}

func loadProgram(pkgDir string) (*loaded, error) {
	files, err := harnessFiles(pkgDir, false)
	if err != nil {
		return nil, err
	}
	overlay := map[string][]byte{}
	var real []string
	for r, v := range files {
		b, err := os.ReadFile(r)
		if err != nil {
			return nil, err
		}
		overlay[v] = b
		real = append(real, r)
	}
	sort.Strings(real)
	cfg := &packages.Config{
		Mode: packages.NeedName | packages.NeedFiles | packages.NeedCompiledGoFiles | packages.NeedImports |
			packages.NeedDeps | packages.NeedTypes | packages.NeedSyntax | packages.NeedTypesInfo | packages.NeedTypesSizes,
		Dir:     repoDir,
		Overlay: overlay,
		Env:     append(os.Environ(), "GOFLAGS=-mod=mod", "GOPROXY=off", "GOSUMDB=off", "GOTOOLCHAIN=local"),
	}
	pattern := "./" + pkgDir
	if pkgDir == "." || pkgDir == "" {
		pattern = "."
	}
	pkgs, err := packages.Load(cfg, pattern)
	if err != nil {
		return nil, err
	}
	if len(pkgs) != 1 {
		return nil, fmt.Errorf("expected 1 package, got %d", len(pkgs))
	}
	var errs []string
	packages.Visit(pkgs, nil, func(p *packages.Package) {
		for _, e := range p.Errors {
			errs = append(errs, e.Error())
		}
	})
	if len(errs) > 0 {
		return nil, fmt.Errorf("package errors (harness no longer type-checks against /repo?):\n  %s", strings.Join(errs, "\n  "))
	}
	prog, ssaPkgs := ssautil.AllPackages(pkgs, ssa.InstantiateGenerics)
	prog.Build()
	ld := &loaded{prog: prog, pkg: ssaPkgs[0], ppkg: pkgs[0], harnesses: map[string]*HarnessInfo{}, stubs: map[string]string{}, overlay: overlay, files: real}
	for _, f := range pkgs[0].Syntax {
		fname := pkgs[0].Fset.Position(f.Pos()).Filename
		if !strings.Contains(filepath.Base(fname), "zz_verif_") {
			continue
		}
		for _, d := range f.Decls {
			fd, ok := d.(*ast.FuncDecl)
			if !ok || fd.Doc == nil || fd.Recv != nil {
				continue
			}
			for _, c := range fd.Doc.List {
				line := strings.TrimSpace(strings.TrimPrefix(c.Text, "//"))
				switch {
				case strings.HasPrefix(line, "verif:harness"):
					hi := &HarnessInfo{Name: fd.Name.Name, Opts: map[string]string{}, File: fname, Doc: fd.Doc.Text(), PkgDir: pkgDir}
					for _, kv := range strings.Fields(line)[1:] {
						k, v, _ := strings.Cut(kv, "=")
						switch k {
						case "property":
							hi.Property = v
						case "tiers":
							hi.Tiers = strings.Split(v, ",")
						case "ints":
							hi.LIA = v == "lia"
						default:
							hi.Opts[k] = v
						}
					}
					if len(hi.Tiers) == 0 {
						hi.Tiers = []string{"quick", "thorough"}
					}
					ld.harnesses[hi.Name] = hi
				case strings.HasPrefix(line, "verif:stub"):
					fs := strings.Fields(line)
					if len(fs) >= 2 {
						ld.stubs[fs[1]] = fd.Name.Name
					}
				}
			}
		}
	}
	return ld, nil
}
