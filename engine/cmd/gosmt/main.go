// gosmt: bounded symbolic execution of connect-go's SSA with an SMT solver.
//
//	gosmt run <Harness> [--tier quick|thorough] [--out result.json] [--pkgdir .]
//	gosmt check <PROPERTY> [--tier quick|thorough]
//	gosmt replay <violation.json>
//	gosmt list
package main

import (
	"encoding/json"
	"flag"
	"fmt"
	"os"
	"runtime/pprof"
	"sort"
	"strings"
	"time"

	"verif/engine/interp"

	"golang.org/x/tools/go/ssa"
)

type RunResult struct {
	Harness     string                `json:"harness"`
	Property    string                `json:"property"`
	Tier        string                `json:"tier"`
	Doc         string                `json:"doc"`
	Solver      string                `json:"solver"`
	LIA         bool                  `json:"lia"`
	Paths       int                   `json:"paths"`
	PathsDone   int                   `json:"paths_done"`
	Infeasible  int                   `json:"infeasible"`
	Steps       int64                 `json:"steps"`
	Queries     int                   `json:"queries"`
	Sat         int                   `json:"sat"`
	Unsat       int                   `json:"unsat"`
	Unknown     int                   `json:"unknown"`
	SolverSec   float64               `json:"solver_s"`
	MaxQuerySec float64               `json:"max_query_s"`
	LoadSec     float64               `json:"load_s"`
	WallSec     float64               `json:"wall_s"`
	Obligations int                   `json:"obligations"`
	Discharged  int                   `json:"discharged"`
	CheckSites  map[string]int        `json:"check_sites"`
	Violations  []interp.Violation    `json:"violations"`
	Witnesses   []*interp.Witness     `json:"witnesses"`
	Inconcl     []string              `json:"inconclusive"`
	Functions   map[string]int        `json:"functions"`
	Intrinsics  map[string]int        `json:"intrinsics"`
	Bounds      map[string]int64      `json:"bounds"`
	Samples     []string              `json:"sample_queries"`
	SolverErrs  []string              `json:"solver_errors"`
	Cross       map[string]CrossStat  `json:"cross_check,omitempty"`
	PerSolver   map[string]SolverStat `json:"per_solver,omitempty"`
	Race        *RaceStat             `json:"race_monitor,omitempty"`
}

// RaceStat reports what the happens-before monitor (race=on) observed.
type RaceStat struct {
	Accesses int64 `json:"library_accesses_checked"`
	Skipped  int64 `json:"harness_accesses_skipped"`
	Syncs    int64 `json:"release_operations"`
}

type SolverStat struct {
	Queries   int     `json:"queries"`
	Sat       int     `json:"sat"`
	Unsat     int     `json:"unsat"`
	Unknown   int     `json:"unknown"`
	SolverSec float64 `json:"solver_s"`
}

type CrossStat struct {
	Queries   int     `json:"queries"`
	Disagree  int     `json:"disagree"`
	Unknown   int     `json:"unknown"`
	SolverSec float64 `json:"solver_s"`
}

func main() {
	if len(os.Args) < 2 {
		usage()
	}
	switch os.Args[1] {
	case "run":
		os.Exit(cmdRun(os.Args[2:]))
	case "check":
		os.Exit(cmdCheck(os.Args[2:]))
	case "replay":
		os.Exit(cmdReplay(os.Args[2:]))
	case "list":
		os.Exit(cmdList())
	default:
		usage()
	}
}

func usage() {
	fmt.Fprintln(os.Stderr, "usage: gosmt run|check|replay|list ...")
	os.Exit(2)
}

func cmdRun(args []string) int {
	fs := flag.NewFlagSet("run", flag.ExitOnError)
	tier := fs.String("tier", "quick", "quick|thorough")
	out := fs.String("out", "", "result file")
	pkgdir := fs.String("pkgdir", ".", "package directory relative to /repo")
	solver := fs.String("solver", "portfolio", "portfolio|z3|z3-new|cvc5")
	timeout := fs.Int("timeout", 20000, "per-query timeout ms")
	trace := fs.Bool("trace", false, "trace SSA")
	smtlog := fs.String("smtlog", "", "log solver dialogue")
	maxPaths := fs.Int("maxpaths", 0, "path bound")
	cpuprof := fs.String("cpuprofile", "", "write cpu profile")
	force := fs.String("force", "", "name=value,... fixes nondetChoice values")
	progress := fs.Bool("progress", false, "print progress to stderr")
	var harness string
	if len(args) > 0 && !strings.HasPrefix(args[0], "-") {
		harness = args[0]
		args = args[1:]
	}
	fs.Parse(args)
	if harness == "" && fs.NArg() > 0 {
		harness = fs.Arg(0)
	}
	if *cpuprof != "" {
		f, _ := os.Create(*cpuprof)
		pprof.StartCPUProfile(f)
		defer pprof.StopCPUProfile()
	}
	forced = map[string]int{}
	for _, kv := range strings.Split(*force, ",") {
		if k, v, ok := strings.Cut(kv, "="); ok {
			var n int
			fmt.Sscan(v, &n)
			forced[k] = n
		}
	}
	showProgress = *progress
	res := runHarness(harness, *pkgdir, *tier, *solver, *timeout, *trace, *smtlog, *maxPaths)
	data, _ := json.MarshalIndent(res, "", " ")
	if *out != "" {
		os.WriteFile(*out, data, 0o644)
	} else {
		// brief summary
		fmt.Printf("harness %s: paths=%d done=%d infeasible=%d queries=%d (sat %d unsat %d unknown %d) solver=%.2fs wall=%.2fs obligations=%d discharged=%d\n",
			res.Harness, res.Paths, res.PathsDone, res.Infeasible, res.Queries, res.Sat, res.Unsat, res.Unknown, res.SolverSec, res.WallSec, res.Obligations, res.Discharged)
		for _, v := range res.Violations {
			m, _ := json.Marshal(v.Model)
			fmt.Printf("  VIOLATION-CANDIDATE %q model=%s\n", v.Msg, m)
		}
		for _, m := range res.Inconcl {
			fmt.Printf("  INCONCLUSIVE %s\n", m)
		}
		var sites []string
		for s, n := range res.CheckSites {
			sites = append(sites, fmt.Sprintf("%s x%d", s, n))
		}
		sort.Strings(sites)
		for _, s := range sites {
			fmt.Printf("  site %s\n", s)
		}
	}
	if len(res.Inconcl) > 0 {
		return 2
	}
	if len(res.Violations) > 0 {
		return 1
	}
	return 0
}

var forced map[string]int
var showProgress bool

func runHarness(harness, pkgdir, tier, solverName string, timeoutMs int, trace bool, smtlog string, maxPaths int) *RunResult {
	start := time.Now()
	res := &RunResult{Harness: harness, Tier: tier, Solver: solverName}
	ld, err := loadProgram(pkgdir)
	if err != nil {
		res.Inconcl = append(res.Inconcl, "load: "+err.Error())
		return res
	}
	res.LoadSec = time.Since(start).Seconds()
	hi := ld.harnesses[harness]
	if hi == nil {
		res.Inconcl = append(res.Inconcl, "unknown harness "+harness)
		return res
	}
	res.Property = hi.Property
	res.Doc = hi.Doc
	res.LIA = hi.LIA
	fn := ld.pkg.Func(harness)
	if fn == nil {
		res.Inconcl = append(res.Inconcl, "harness function not found in SSA")
		return res
	}
	interp.SetLIA(hi.LIA)
	interp.Tier = tier
	interp.HarnessPkgPath = ld.pkg.Pkg.Path()
	// stubs requested by the harness: stubs=a,b selects stub groups
	groups := map[string]bool{}
	for _, g := range strings.Split(hi.Opts["stubs"], ",") {
		if g != "" {
			groups[g] = true
		}
	}
	interp.Stubs = map[string]*ssa.Function{}
	for target, fname := range ld.stubs {
		lib, grp, _ := strings.Cut(target, "@")
		if grp == "" {
			grp = "default"
		}
		if !groups[grp] && !groups["all"] {
			continue
		}
		if f := ld.pkg.Func(fname); f != nil {
			interp.Stubs[lib] = f
		}
	}
	order := []string{solverName}
	if solverName == "portfolio" {
		order = []string{"z3", "z3-new", "cvc5"}
		if hi.LIA {
			order = []string{"cvc5", "z3-new", "z3"}
		}
		if v := hi.Opts["solver"]; v != "" {
			order = strings.Split(v, ",")
		}
	}
	s, err := interp.NewPortfolio(order, timeoutMs, smtlog)
	if err != nil {
		res.Inconcl = append(res.Inconcl, "solver: "+err.Error())
		return res
	}
	defer s.Close()
	lim := interp.Limits{MaxPaths: maxPaths}
	if v := hi.Opts["maxsteps"]; v != "" {
		fmt.Sscan(v, &lim.MaxSteps)
	}
	if v := hi.Opts["maxconc"]; v != "" {
		fmt.Sscan(v, &lim.MaxConcretize)
	}
	ex := interp.NewExplorer(s, harness, lim)
	ex.PoolAny = hi.Opts["pool"] == "any"
	interp.RaceOn = hi.Opts["race"] == "on"
	interp.RaceAll = os.Getenv("GOSMT_RACE_ALL") == "1"
	ex.NoPoolHavoc = hi.Opts["pool"] == "nohavoc"
	ex.MapOrderChoice = hi.Opts["maporder"] == "all"
	if hi.Opts["sched"] == "explore" {
		ex.SchedChoice = true
		ex.MaxPreempt = 2
		if tier == "thorough" {
			ex.MaxPreempt = 3
		}
		if v := hi.Opts["preempt"]; v != "" && tier != "thorough" {
			fmt.Sscan(v, &ex.MaxPreempt)
		}
		if v := hi.Opts["preemptT"]; v != "" && tier == "thorough" {
			fmt.Sscan(v, &ex.MaxPreempt)
		}
	}
	budget := 15 * time.Minute
	if tier == "thorough" {
		budget = 60 * time.Minute
	}
	if v := hi.Opts["budget"]; v != "" {
		if d, err := time.ParseDuration(v); err == nil {
			budget = d
		}
	}
	ex.Deadline = time.Now().Add(budget)
	ex.ViolationGrace = 90 * time.Second
	ex.Known = loadKnown()
	ex.Forced = forced
	ex.Progress = showProgress
	m := interp.NewMachine(ld.prog, ld.ppkg.TypesSizes, []string{ld.pkg.Pkg.Path()})
	if trace {
		m.SetTracing()
	}
	func() {
		defer func() {
			if r := recover(); r != nil {
				res.Inconcl = append(res.Inconcl, fmt.Sprintf("engine crash: %v", r))
			}
		}()
		m.RunHarness(fn, ex)
	}()
	res.Paths, res.PathsDone, res.Infeasible, res.Steps = ex.Paths, ex.PathsDone, ex.Infeasible, ex.Steps
	res.PerSolver = map[string]SolverStat{}
	for _, sv := range s.Solvers() {
		res.Queries += sv.Queries
		res.Sat += sv.NSat
		res.Unsat += sv.NUnsat
		res.Unknown += sv.NUnknown
		res.SolverSec += sv.Time.Seconds()
		if sv.MaxQuery.Seconds() > res.MaxQuerySec {
			res.MaxQuerySec = sv.MaxQuery.Seconds()
		}
		res.PerSolver[sv.Name] = SolverStat{sv.Queries, sv.NSat, sv.NUnsat, sv.NUnknown, sv.Time.Seconds()}
	}
	res.Solver = strings.Join(order, ",")
	res.Obligations, res.Discharged = ex.Obligations, ex.Discharged
	res.CheckSites = ex.CheckSites
	res.Violations = ex.Violations
	for _, w := range ex.Witnesses {
		if w != nil {
			res.Witnesses = append(res.Witnesses, w)
		}
	}
	sort.Slice(res.Witnesses, func(i, j int) bool { return res.Witnesses[i].Site < res.Witnesses[j].Site })
	res.Inconcl = append(res.Inconcl, ex.Inconcl...)
	res.Functions = ex.FnsEncoded
	res.Intrinsics = ex.Intrinsics
	if interp.RaceOn {
		res.Race = &RaceStat{interp.RaceStats.Accesses, interp.RaceStats.Skipped, interp.RaceStats.Syncs}
	}
	res.Bounds = interp.Bounds
	res.Samples = ex.SampleQueries
	res.SolverErrs = s.Errors()
	if ex.PathsDone == 0 && len(res.Inconcl) == 0 {
		res.Inconcl = append(res.Inconcl, "vacuous: no path of the harness ran to completion")
	}
	for site := range ex.CheckSites {
		if ex.Witnesses[site] == nil && len(ex.Violations) == 0 {
			// a check site no completed path reached with a model
			res.Inconcl = append(res.Inconcl, "no reachability witness for check site: "+site)
		}
	}
	res.WallSec = time.Since(start).Seconds()
	return res
}

func cmdList() int {
	hs, err := scanHarnesses()
	if err != nil {
		fmt.Fprintln(os.Stderr, err)
		return 2
	}
	for _, h := range hs {
		fmt.Printf("%s %s %s tiers=%v\n", h.Property, h.Name, h.PkgDir, h.Tiers)
	}
	return 0
}
