package interp

import (
	"go/types"

	"golang.org/x/tools/go/ssa"
)

// SetLIA switches integer representation (must be called before a run).
func SetLIA(on bool) { liaMode = on }

// FunctionCount reports per-function instruction counts of the last run.
func (e *Explorer) Enter(fn *ssa.Function) { e.enter(fn) }

// Tier is "quick" or "thorough"; read by the bound() harness intrinsic.
var Tier = "quick"

// Bounds records the bounds requested by the harness (name -> value).
var Bounds = map[string]int64{}

func init() {
	harnessAPI["bound"] = func(fr *frame, a []value) value {
		name := concreteString(a[0])
		v := concreteInt64(a[1])
		if Tier == "thorough" {
			v = concreteInt64(a[2])
		}
		Bounds[name] = v
		return int(v)
	}
	harnessAPI["verifTier"] = func(fr *frame, a []value) value {
		if Tier == "thorough" {
			return 1
		}
		return 0
	}
}

var _ = types.Typ

func (m *Machine) SetTracing() { m.i.mode |= EnableTracing }
