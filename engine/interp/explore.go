package interp

// Path exploration by re-execution.  A path is identified by its decision
// vector; every symbolic branch / concretisation / choice is one decision.
// The harness is re-run from the start for every path with the decision
// prefix replayed (no solver calls) and new decisions taken depth-first,
// the solver deciding which alternatives are feasible.

import (
	"fmt"
	"go/types"
	"os"
	"sort"
	"strings"
	"time"

	"golang.org/x/tools/go/ssa"
)

type abortKind int

const (
	abortInfeasible  abortKind = iota // assumption unsatisfiable on this path
	abortDone                         // path stopped deliberately
	abortBound                        // step / decision / unwinding bound hit
	abortUnsupported                  // engine cannot model something -> INCONCLUSIVE
	abortUnknown                      // solver returned unknown / error -> INCONCLUSIVE
)

type pathAbort struct {
	kind abortKind
	msg  string
}

func (p pathAbort) String() string { return fmt.Sprintf("pathAbort(%d): %s", p.kind, p.msg) }

func unsupported(msg string) pathAbort { return pathAbort{abortUnsupported, msg} }

// runtimePanic is a Go run-time panic raised by the target program
// (index out of range, nil dereference, divide by zero, ...).
type runtimePanic string

func (r runtimePanic) Error() string  { return string(r) }
func (r runtimePanic) RuntimeError() {}

type decision struct {
	val  uint64 // chosen alternative (branch: 0/1; concretise: value; choice: index)
	kind byte   // 'b', 'c', 'k'
}

type Violation struct {
	Harness string            `json:"harness"`
	Msg     string            `json:"msg"`
	Model   map[string]any    `json:"model"`
	Path    []uint64          `json:"path"`
	Events  []string          `json:"events"`
	Known   string            `json:"known,omitempty"`
	Extra   map[string]string `json:"extra,omitempty"`
}

type Witness struct {
	Site   string         `json:"site"`
	Model  map[string]any `json:"model"`
	Events []string       `json:"events"`
}

type Limits struct {
	MaxSteps      int // SSA instructions per path
	MaxDecisions  int // decisions per path
	MaxPaths      int
	MaxConcretize int // alternatives per concretisation
	MaxViolations int
}

type Explorer struct {
	S       *Portfolio
	Harness string
	Lim     Limits

	// per-path state
	prefix  []decision
	pos     int
	trace   []decision
	pc      []*Term
	model   *Model // a model of pc, or nil if unknown
	steps   int
	nondets map[string]int   // name -> occurrence count
	vars    []*Term          // nondet variables created on this path (in order)
	varLens map[string]int   // byte-slice names -> chosen length
	events  []string         // check/reach sites hit, in order
	pools   map[*value]*poolState
	extra   map[string]any // per-path scratch for intrinsics
	lastModel   *Model
	wantWitness []string
	choices     map[string]int
	varKinds    map[string]types.BasicKind
	mutexes     map[*value]*mutexState
	curFn       *ssa.Function
	onceWaiters []onceWaiter
	havocSeq    int
	NoPoolHavoc bool
	NoIfConvert bool
	Forced      map[string]int // nondetChoice values fixed from the command line (sharding)
	Deadline    time.Time      // wall-clock budget of this run
	ViolationGrace time.Duration // keep exploring this long after the first violation candidate
	firstViolation time.Time
	Progress    bool

	// options
	SchedChoice    bool // scheduling decisions are explored
	MaxPreempt     int
	MapOrderChoice bool // map iteration orders are explored (small maps)
	PoolAny        bool // sync.Pool.Get may return any pooled object (else LIFO/New)
	Intrinsics     map[string]int

	// cross-path state
	pending    [][]decision
	Paths      int
	PathsDone  int
	Infeasible int
	Steps      int64
	Violations []Violation
	Witnesses  map[string]*Witness // first path reaching each check site
	Inconcl    []string            // reasons
	CheckSites map[string]int      // site -> times discharged
	Obligations int                // check queries issued
	Discharged  int                // ... answered unsat
	SampleQueries []string
	FnsEncoded map[string]int // function -> instructions executed
	Known      []KnownFinding
	KnownHit   map[string]bool
}

// KnownFinding identifies a recorded defect by harness + check message
// (+ optional substring of the model description).
type KnownFinding struct {
	Property string `json:"property"`
	Harness  string `json:"harness"`
	Check    string `json:"check"` // check message (exact)
	Desc     string `json:"desc"`
	Status   string `json:"status"` // "open" or "fixed"
	Commit   string `json:"commit,omitempty"`
}

var debugPaths = os.Getenv("GOSMT_DEBUG_PATHS") != ""

// X is the explorer of the running machine.
var X *Explorer

func NewExplorer(s *Portfolio, harness string, lim Limits) *Explorer {
	if lim.MaxSteps == 0 {
		lim.MaxSteps = 400000
	}
	if lim.MaxDecisions == 0 {
		lim.MaxDecisions = 2000
	}
	if lim.MaxPaths == 0 {
		lim.MaxPaths = 200000
	}
	if lim.MaxConcretize == 0 {
		lim.MaxConcretize = 64
	}
	if lim.MaxViolations == 0 {
		lim.MaxViolations = 24
	}
	return &Explorer{S: s, Harness: harness, Lim: lim,
		Witnesses: map[string]*Witness{}, CheckSites: map[string]int{},
		FnsEncoded: map[string]int{}, KnownHit: map[string]bool{}, Intrinsics: map[string]int{}}
}

func (e *Explorer) resetPath(prefix []decision) {
	e.prefix = prefix
	e.pos = 0
	e.trace = e.trace[:0]
	e.pc = e.pc[:0]
	e.model = NewModel()
	e.steps = 0
	e.nondets = map[string]int{}
	e.vars = nil
	e.varLens = map[string]int{}
	e.events = nil
	e.pools = map[*value]*poolState{}
	e.extra = map[string]any{}
	e.wantWitness = nil
	e.choices = map[string]int{}
	e.varKinds = map[string]types.BasicKind{}
	e.mutexes = nil
	e.onceWaiters = nil
	e.havocSeq = 0
	if liaMode {
		resetLIAPath()
	}
}

// Explore runs all paths of the harness.  run executes the harness once and
// returns the target panic value (nil for normal completion).
func (e *Explorer) Explore(run func() (panicked bool, pval string)) {
	e.pending = [][]decision{nil}
	for len(e.pending) > 0 {
		if e.Paths >= e.Lim.MaxPaths {
			e.inconclusive(fmt.Sprintf("path bound %d hit with %d pending", e.Lim.MaxPaths, len(e.pending)))
			return
		}
		if len(e.Violations) >= e.Lim.MaxViolations {
			return
		}
		if e.Deadline != (time.Time{}) && time.Now().After(e.Deadline) {
			if len(e.Violations) == 0 {
				e.inconclusive(fmt.Sprintf("time budget exhausted with %d paths pending", len(e.pending)))
			}
			// with violation candidates in hand the run stops here: they are
			// replayed and reported; the unexplored rest cannot unmake them.
			return
		}
		if len(e.Violations) > 0 && e.ViolationGrace > 0 && time.Since(e.firstViolation) > e.ViolationGrace {
			return
		}
		n := len(e.pending) - 1
		prefix := e.pending[n]
		e.pending = e.pending[:n]
		e.resetPath(prefix)
		e.Paths++
		if e.Progress && e.Paths%50 == 0 {
			fmt.Fprintf(os.Stderr, "progress: %d paths, %d pending, %d queries\n", e.Paths, len(e.pending), e.S.Queries())
		}
		e.runOne(run)
		e.Steps += int64(e.steps)
	}
}

func (e *Explorer) runOne(run func() (bool, string)) {
	defer func() {
		if r := recover(); r != nil {
			pa, ok := r.(pathAbort)
			if !ok {
				panic(r)
			}
			switch pa.kind {
			case abortInfeasible:
				e.Infeasible++
			case abortDone:
				e.PathsDone++
			case abortBound:
				e.inconclusive("bound: " + pa.msg)
			case abortUnsupported:
				e.inconclusive("unsupported: " + pa.msg)
			case abortUnknown:
				e.inconclusive("solver: " + pa.msg)
			}
		}
	}()
	panicked, pval := run()
	if debugPaths {
		var b strings.Builder
		for _, d := range e.trace {
			fmt.Fprintf(&b, "%c%d ", d.kind, d.val)
		}
		fmt.Fprintf(os.Stderr, "PATH %d: %s| lens=%v choices=%v\n", e.Paths, b.String(), e.varLens, e.choices)
	}
	if panicked {
		e.violation("panic: "+pval, nil)
	}
	e.PathsDone++
}

func (e *Explorer) inconclusive(msg string) {
	for _, m := range e.Inconcl {
		if m == msg {
			return
		}
	}
	if len(e.Inconcl) < 20 {
		e.Inconcl = append(e.Inconcl, msg)
	}
}

// step accounts for one executed SSA instruction.
func (e *Explorer) step() {
	e.steps++
	if e.steps > e.Lim.MaxSteps {
		panic(pathAbort{abortBound, fmt.Sprintf("more than %d SSA instructions on one path (loop unwinding bound)", e.Lim.MaxSteps)})
	}
}

func (e *Explorer) record(d decision) {
	e.trace = append(e.trace, d)
	e.pos++
	if len(e.trace) > e.Lim.MaxDecisions {
		panic(pathAbort{abortBound, fmt.Sprintf("more than %d decisions on one path", e.Lim.MaxDecisions)})
	}
}

func (e *Explorer) fork(alt decision) {
	p := make([]decision, len(e.trace)+1)
	copy(p, e.trace)
	p[len(e.trace)] = alt
	e.pending = append(e.pending, p)
}

func (e *Explorer) pushPC(t *Term) {
	e.pc = append(e.pc, t)
	if liaMode {
		refineRange(t)
	}
}

func (e *Explorer) addPC(t *Term) {
	if isTrue(t) {
		return
	}
	e.pushPC(t)
	if e.model != nil && !e.model.EvalBool(t) {
		e.model = nil
	}
}

// sat checks pc AND extra; on sat the model (over all path variables) is cached.
func (e *Explorer) sat(extra ...*Term) SatResult {
	as := make([]*Term, 0, len(e.pc)+len(extra))
	as = append(as, e.pc...)
	as = append(as, extra...)
	vars := collectVars(as...)
	res, m := e.S.Check(e.pc, extra, vars)
	if res == Unknown {
		msg := "unknown"
		if errs := e.S.Errors(); len(errs) > 0 {
			msg = errs[len(errs)-1]
		}
		panic(pathAbort{abortUnknown, msg})
	}
	if res == Sat {
		e.lastModel = m
	}
	return res
}

// Branch decides a symbolic condition, forking when both sides are feasible.
func (e *Explorer) Branch(c *Term) bool {
	if c.op == OpConst {
		return c.val != 0
	}
	if e.pos < len(e.prefix) {
		d := e.prefix[e.pos]
		if d.kind != 'b' {
			panic(fmt.Sprintf("replay divergence: expected kind %c got branch at decision %d", d.kind, e.pos))
		}
		e.record(d)
		if d.val == 1 {
			e.addPC(c)
			return true
		}
		e.addPC(mkNot(c))
		return false
	}
	nc := mkNot(c)
	var canT, canF bool
	var mT, mF *Model
	if e.model != nil {
		if e.model.EvalBool(c) {
			canT, mT = true, e.model
		} else {
			canF, mF = true, e.model
		}
	}
	if !canT {
		if e.sat(c) == Sat {
			canT, mT = true, e.lastModel
		}
	}
	if !canF {
		if !canT {
			canF = true // pc is feasible, so one side must be
			mF = nil
		} else if e.sat(nc) == Sat {
			canF, mF = true, e.lastModel
		}
	}
	switch {
	case canT && canF:
		e.fork(decision{0, 'b'})
		e.record(decision{1, 'b'})
		e.pushPC(c)
		e.model = mT
		return true
	case canT:
		e.record(decision{1, 'b'})
		e.pushPC(c)
		e.model = mT
		return true
	default:
		e.record(decision{0, 'b'})
		e.pushPC(nc)
		e.model = mF
		return false
	}
}

// Concretize enumerates the feasible values of t and forks over them.
func (e *Explorer) Concretize(t *Term) uint64 {
	if t.op == OpConst {
		return t.val
	}
	if e.pos < len(e.prefix) {
		d := e.prefix[e.pos]
		if d.kind != 'c' {
			panic(fmt.Sprintf("replay divergence: expected kind %c got concretize at decision %d", d.kind, e.pos))
		}
		e.record(d)
		e.addPC(mkEq(t, mkConst(t.sort, d.val)))
		return d.val
	}
	var vals []uint64
	var models []*Model
	var excl []*Term
	for {
		if len(vals) > e.Lim.MaxConcretize {
			panic(pathAbort{abortBound, fmt.Sprintf("more than %d feasible values when concretising %s", e.Lim.MaxConcretize, t)})
		}
		var m *Model
		if len(vals) == 0 && e.model != nil {
			m = e.model
		} else {
			if e.sat(excl...) != Sat {
				break
			}
			m = e.lastModel
		}
		v := m.Eval(t)
		vals = append(vals, v)
		models = append(models, m)
		excl = append(excl, mkNot(mkEq(t, mkConst(t.sort, v))))
	}
	if len(vals) == 0 {
		panic(pathAbort{abortInfeasible, "concretize: infeasible"})
	}
	// deterministic order: ascending; explore smallest first.
	idx := make([]int, len(vals))
	for i := range idx {
		idx[i] = i
	}
	sort.Slice(idx, func(a, b int) bool { return vals[idx[a]] < vals[idx[b]] })
	for k := len(idx) - 1; k >= 1; k-- {
		e.fork(decision{vals[idx[k]], 'c'})
	}
	first := idx[0]
	e.record(decision{vals[first], 'c'})
	e.pushPC(mkEq(t, mkConst(t.sort, vals[first])))
	e.model = models[first]
	return vals[first]
}

// Choice forks over n alternatives unconditionally (all feasible).
func (e *Explorer) Choice(n int) int {
	if n <= 1 {
		return 0
	}
	if e.pos < len(e.prefix) {
		d := e.prefix[e.pos]
		if d.kind != 'k' {
			panic(fmt.Sprintf("replay divergence: expected kind %c got choice at decision %d", d.kind, e.pos))
		}
		e.record(d)
		return int(d.val)
	}
	for k := n - 1; k >= 1; k-- {
		e.fork(decision{uint64(k), 'k'})
	}
	e.record(decision{0, 'k'})
	return 0
}

// Assume adds c to the path condition, aborting the path if infeasible.
func (e *Explorer) Assume(c *Term) {
	if isTrue(c) {
		return
	}
	if isFalse(c) {
		panic(pathAbort{abortInfeasible, "assume(false)"})
	}
	if e.pos < len(e.prefix) {
		// the prefix was feasible including this assumption
		e.addPC(c)
		return
	}
	if e.model != nil && e.model.EvalBool(c) {
		e.pushPC(c)
		return
	}
	if e.sat(c) != Sat {
		panic(pathAbort{abortInfeasible, "assume"})
	}
	e.pushPC(c)
	e.model = e.lastModel
}

// Check discharges the obligation pc => c.
func (e *Explorer) Check(c *Term, site string) {
	e.events = append(e.events, "check:"+site)
	e.CheckSites[site]++
	if e.Witnesses[site] == nil {
		dup := false
		for _, s := range e.wantWitness {
			dup = dup || s == site
		}
		if !dup {
			e.wantWitness = append(e.wantWitness, site)
		}
	}
	if isTrue(c) {
		e.Obligations++
		e.Discharged++
		return
	}
	if e.pos < len(e.prefix) {
		// already discharged on the parent path
		e.addPC(c)
		return
	}
	e.Obligations++
	nc := mkNot(c)
	if e.sat(nc) == Sat {
		if len(e.SampleQueries) < 3 {
			e.SampleQueries = append(e.SampleQueries, e.S.LastQuery)
		}
		e.violation(site, e.lastModel)
		// continue under the assumption that the check held
		if isFalse(c) || e.sat(c) != Sat {
			panic(pathAbort{abortDone, "check failed on every input of this path"})
		}
		e.pushPC(c)
		e.model = e.lastModel
		return
	}
	if len(e.SampleQueries) < 3 {
		e.SampleQueries = append(e.SampleQueries, e.S.LastQuery)
	}
	e.Discharged++
	e.addPC(c)
}

func (e *Explorer) violation(msg string, m *Model) {
	if m == nil {
		if e.model != nil {
			m = e.model
		} else if e.sat() == Sat {
			m = e.lastModel
		}
	}
	same := 0
	for _, old := range e.Violations {
		if old.Msg == msg {
			same++
		}
	}
	if same >= 2 {
		return // two counterexamples per failing check are enough
	}
	v := Violation{Harness: e.Harness, Msg: msg, Model: e.exportModel(m), Events: append([]string{}, e.events...)}
	for _, d := range e.trace {
		v.Path = append(v.Path, d.val)
	}
	for _, k := range e.Known {
		if k.Status == "open" && k.Harness == e.Harness && k.Check == msg {
			v.Known = k.Desc
			if e.KnownHit[k.Harness+"|"+k.Check] {
				return // one instance is enough
			}
			e.KnownHit[k.Harness+"|"+k.Check] = true
		}
	}
	if len(e.Violations) == 0 {
		e.firstViolation = time.Now()
	}
	e.Violations = append(e.Violations, v)
}

// exportModel turns a solver model into the JSON model consumed by the
// native replay runtime: scalar nondets by name, byte strings as arrays.
func (e *Explorer) exportModel(m *Model) map[string]any {
	out := map[string]any{}
	if m == nil {
		m = NewModel()
	}
	for _, v := range e.vars {
		if strings.Contains(v.name, "[") {
			continue
		}
		val := m.Eval(v)
		switch {
		case v.sort.W == 0:
			out[v.name] = val != 0
		default:
			out[v.name] = fmt.Sprintf("%d", val) // as decimal string of raw bits
		}
	}
	for name, n := range e.varLens {
		arr := make([]int, n)
		for i := 0; i < n; i++ {
			arr[i] = int(m.Eval(mkVar(fmt.Sprintf("%s[%d]", name, i), sortOfKind(types.Uint8))))
		}
		out[name] = arr
	}
	for k, v := range e.choices {
		out[k] = fmt.Sprintf("%d", v)
	}
	return out
}

// finishPath is called when the harness returned normally: records witnesses.
func (e *Explorer) finishPath() {
	if len(e.wantWitness) == 0 {
		return
	}
	m := e.model
	if m == nil {
		if e.sat() != Sat {
			return
		}
		m = e.lastModel
	}
	w := &Witness{Model: e.exportModel(m), Events: append([]string{}, e.events...)}
	for _, s := range e.wantWitness {
		ww := *w
		ww.Site = s
		e.Witnesses[s] = &ww
	}
	e.wantWitness = nil
}
