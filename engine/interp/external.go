package interp

// Intrinsics: functions that are not interpreted from their SSA bodies,
// because they have none (assembly, runtime-linked), because they use
// unsafe/reflect, or because they are modelled (sync.Pool, fmt, errors.Is/As).
// Every intrinsic that is hit during a run is listed in the evidence file.

import (
	"fmt"
	"go/types"
	"strings"

	"golang.org/x/tools/go/ssa"
)

type externalFn func(fr *frame, args []value) value

// Key strings are from Function.String() (of the generic origin for instances).
var externals = make(map[string]externalFn)

// Stubs redirect a library function to a harness function (set by the driver).
var Stubs = map[string]*ssa.Function{}

// HarnessPkgPath is the import path of the package the harness lives in.
var HarnessPkgPath string

func register(m map[string]externalFn) {
	for k, v := range m {
		externals[k] = v
	}
}

func noop(fr *frame, args []value) value { return nil }

// ---- harness API -------------------------------------------------------------

var harnessAPI = map[string]externalFn{}

func init() {
	for k, v := range builtinHarnessAPI() {
		harnessAPI[k] = v
	}
}

func builtinHarnessAPI() map[string]externalFn {
	return map[string]externalFn{
		"nondetInt":    func(fr *frame, a []value) value { return X.nondetScalar(concreteString(a[0]), types.Int) },
		"nondetInt64":  func(fr *frame, a []value) value { return X.nondetScalar(concreteString(a[0]), types.Int64) },
		"nondetInt32":  func(fr *frame, a []value) value { return X.nondetScalar(concreteString(a[0]), types.Int32) },
		"nondetUint32": func(fr *frame, a []value) value { return X.nondetScalar(concreteString(a[0]), types.Uint32) },
		"nondetUint64": func(fr *frame, a []value) value { return X.nondetScalar(concreteString(a[0]), types.Uint64) },
		"nondetByte":   func(fr *frame, a []value) value { return X.nondetScalar(concreteString(a[0]), types.Uint8) },
		"nondetBool":   func(fr *frame, a []value) value { return X.nondetScalar(concreteString(a[0]), types.Bool) },
		"nondetBytes": func(fr *frame, a []value) value {
			return X.nondetBytes(concreteString(a[0]), 0, int(concreteInt64(a[1])))
		},
		"nondetBytesN": func(fr *frame, a []value) value {
			n := int(concreteInt64(a[1]))
			return X.nondetBytes(concreteString(a[0]), n, n)
		},
		"nondetString": func(fr *frame, a []value) value {
			return mkstr(X.nondetBytes(concreteString(a[0]), 0, int(concreteInt64(a[1]))))
		},
		"nondetStringN": func(fr *frame, a []value) value {
			n := int(concreteInt64(a[1]))
			return mkstr(X.nondetBytes(concreteString(a[0]), n, n))
		},
		"nondetChoice": func(fr *frame, a []value) value {
			return X.nondetChoice(concreteString(a[0]), int(concreteInt64(a[1])))
		},
		"assume": func(fr *frame, a []value) value {
			X.Assume(asTermBool(a[0]))
			return nil
		},
		"check": func(fr *frame, a []value) value {
			X.Check(asTermBool(a[0]), concreteString(a[1]))
			return nil
		},
		"reach": func(fr *frame, a []value) value {
			X.events = append(X.events, "reach:"+concreteString(a[0]))
			return nil
		},
		"verifSymbolic": func(fr *frame, a []value) value { return true },
		"verifQuiesce": func(fr *frame, a []value) value {
			quiesce()
			return liveGoroutines()
		},
		"verifYield": func(fr *frame, a []value) value {
			yield()
			return nil
		},
		"verifPoolPoison": func(fr *frame, a []value) value { return true },
	}
}

func (e *Explorer) freshName(name string) string {
	n := e.nondets[name]
	e.nondets[name] = n + 1
	if n == 0 {
		return name
	}
	return fmt.Sprintf("%s#%d", name, n)
}

func (e *Explorer) nondetScalar(name string, k types.BasicKind) value {
	name = e.freshName(name)
	v := mkVar(name, sortOfKind(k))
	e.vars = append(e.vars, v)
	e.varKinds[name] = k
	if liaMode && k != types.Bool {
		blo, bhi := liaRangeBig(k)
		varRange[name] = ival{blo, bhi}
		delete(ivalMemo, v.id)
		lo, hi := liaRange(k)
		e.Assume(mkAnd(mk(OpILe, BoolSort, lo, v), mk(OpILe, BoolSort, v, hi)))
	}
	return sym{v, k}
}

// nondetBytes returns a byte slice of symbolic length in [min,max]
// (case split by forking) with symbolic contents.
func (e *Explorer) nondetBytes(name string, min, max int) []value {
	name = e.freshName(name)
	n := min
	if max > min {
		n = min + e.Choice(max-min+1)
	}
	e.varLens[name] = n
	out := make([]value, n)
	for i := range out {
		vn := fmt.Sprintf("%s[%d]", name, i)
		v := mkVar(vn, sortOfKind(types.Uint8))
		e.vars = append(e.vars, v)
		out[i] = sym{v, types.Uint8}
		if liaMode {
			blo, bhi := liaRangeBig(types.Uint8)
			varRange[vn] = ival{blo, bhi}
			delete(ivalMemo, v.id)
			e.Assume(mkAnd(mk(OpILe, BoolSort, mkConst(IntSort, 0), v), mk(OpILe, BoolSort, v, mkConst(IntSort, 255))))
		}
	}
	return out
}

func (e *Explorer) nondetChoice(name string, n int) value {
	name = e.freshName(name)
	if f, ok := e.Forced[name]; ok && f < n {
		e.choices[name] = f
		return f
	}
	k := e.Choice(n)
	e.choices[name] = k
	return k
}

// mapOrder returns the iteration order for a map with n entries.
func (e *Explorer) mapOrder(n int) []int {
	order := make([]int, n)
	for i := range order {
		order[i] = i
	}
	if e.MapOrderChoice && n > 1 && n <= 3 {
		// fork over rotations and the reversal (covers all orders for n<=2,
		// 4 of 6 for n=3).
		switch e.Choice(n + 1) {
		case 0:
		case n:
			for i := range order {
				order[i] = n - 1 - i
			}
		default:
			k := 0
			_ = k
			r := e.trace[len(e.trace)-1].val
			for i := range order {
				order[i] = (i + int(r)) % n
			}
		}
	}
	return order
}

// ---- call dispatch helper -----------------------------------------------------

// lookupExternal finds the intrinsic / stub / harness API for fn.
func lookupExternal(fn *ssa.Function) externalFn {
	if fn.Blocks == nil && fn.Pkg != nil && fn.Pkg.Pkg.Path() == HarnessPkgPath {
		if h := harnessAPI[fn.Name()]; h != nil {
			return h
		}
	}
	name := fn.String()
	if o := fn.Origin(); o != nil {
		name = o.String()
	}
	if st := Stubs[name]; st != nil && st != fn {
		return func(fr *frame, args []value) value {
			X.noteIntrinsic("stub:" + name)
			return call(fr.i, fr, fn.Pos(), st, args)
		}
	}
	if ext := externals[name]; ext != nil {
		return func(fr *frame, args []value) value {
			X.noteIntrinsic(name)
			return ext(fr, args)
		}
	}
	return nil
}

func (e *Explorer) noteIntrinsic(name string) {
	e.Intrinsics[name]++
}

// pkgType returns the named type pkg.name of the program.
func pkgType(i *interpreter, pkg, name string) types.Type {
	p := i.prog.ImportedPackage(pkg)
	if p == nil {
		panic(unsupported("package " + pkg + " not loaded"))
	}
	t := p.Type(name)
	if t == nil {
		panic(unsupported("type " + pkg + "." + name + " not found"))
	}
	return t.Object().Type()
}

func fieldIndex(t types.Type, name string) int {
	st := t.Underlying().(*types.Struct)
	for i := 0; i < st.NumFields(); i++ {
		if st.Field(i).Name() == name {
			return i
		}
	}
	panic(unsupported("field " + name + " not found in " + t.String()))
}

func newObj(t types.Type) *value {
	v := zero(t)
	return &v
}

// errorsNew builds an *errors.errorString.
func errorsNew(i *interpreter, msg value) value {
	t := pkgType(i, "errors", "errorString")
	p := newObj(t)
	(*p).(structure)[0] = msg
	return iface{t: types.NewPointer(t), v: p}
}

var _ = strings.HasPrefix
