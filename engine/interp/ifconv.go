package interp

// If-conversion of short-circuit boolean chains.
//
// `a || b || c` and `a && b` compile to chains of If blocks whose
// intermediate blocks only compute the next operand.  Executed naively every
// operand forks the path although all arrivals at the shared target have
// identical state.  ifConvert evaluates such pure blocks speculatively and
// performs ONE branch on the combined condition, merging phi values at the
// shared target with ite terms.

import (
	"go/token"
	"go/types"

	"golang.org/x/tools/go/ssa"
)

const maxSpecInstrs = 12

// speculable reports whether block b (entered only from its single
// predecessor) consists of side-effect-free, non-panicking, non-forking
// instructions followed by an If or Jump.
func speculable(b *ssa.BasicBlock) bool {
	if len(b.Preds) != 1 || len(b.Instrs) > maxSpecInstrs {
		return false
	}
	for i, in := range b.Instrs {
		last := i == len(b.Instrs)-1
		switch in := in.(type) {
		case *ssa.BinOp:
			switch in.Op {
			case token.QUO, token.REM, token.SHL, token.SHR:
				return false
			}
			if !scalarType(in.X.Type()) {
				// string comparisons are fine too
				if b, ok := in.X.Type().Underlying().(*types.Basic); !ok || b.Info()&types.IsString == 0 {
					return false
				}
				if in.Op != token.EQL && in.Op != token.NEQ {
					return false
				}
			}
		case *ssa.UnOp:
			if in.Op != token.NOT && in.Op != token.SUB && in.Op != token.XOR {
				return false
			}
		case *ssa.Convert:
			if !scalarType(in.Type()) || !scalarType(in.X.Type()) {
				return false
			}
		case *ssa.DebugRef:
		case *ssa.If, *ssa.Jump:
			if !last {
				return false
			}
		default:
			return false
		}
	}
	return true
}

func scalarType(t types.Type) bool {
	b, ok := t.Underlying().(*types.Basic)
	return ok && b.Info()&(types.IsInteger|types.IsBoolean) != 0
}

type arrival struct {
	pred  *ssa.BasicBlock
	guard *Term
}

// specBlock evaluates the non-terminator instructions of b into fr.env.
func specBlock(fr *frame, b *ssa.BasicBlock) {
	for _, in := range b.Instrs[:len(b.Instrs)-1] {
		switch in := in.(type) {
		case *ssa.BinOp:
			fr.env[in] = binop(in.Op, in.X.Type(), fr.get(in.X), fr.get(in.Y))
		case *ssa.UnOp:
			fr.env[in] = unop(in, fr.get(in.X))
		case *ssa.Convert:
			fr.env[in] = conv(in.Type(), in.X.Type(), fr.get(in.X))
		}
		X.steps++
	}
}

func hasPhis(b *ssa.BasicBlock) bool {
	_, ok := b.Instrs[0].(*ssa.Phi)
	return ok
}

// mergePhis computes the phi values of block m for the given arrivals;
// ok=false if some phi merges non-scalar values that differ.
func mergePhis(fr *frame, m *ssa.BasicBlock, arr []arrival) (vals []value, phis []*ssa.Phi, ok bool) {
	for _, in := range m.Instrs {
		phi, isPhi := in.(*ssa.Phi)
		if !isPhi {
			break
		}
		var cur value
		for k := len(arr) - 1; k >= 0; k-- {
			idx := -1
			for pi, p := range m.Preds {
				if p == arr[k].pred {
					idx = pi
					break
				}
			}
			if idx < 0 {
				return nil, nil, false
			}
			v := fr.get(phi.Edges[idx])
			if k == len(arr)-1 {
				cur = v
				continue
			}
			// cur = ite(guard_k, v, cur)
			kv, ok1 := kindOf(v)
			kc, ok2 := kindOf(cur)
			if !ok1 || !ok2 || kv != kc {
				if isStr(v) && isStr(cur) && !isSym(v) && !isSym(cur) && v.(string) == cur.(string) {
					continue
				}
				return nil, nil, false
			}
			if liaMode && kv != types.Bool {
				cur = mkval2(mkIte(arr[k].guard, lift(v), lift(cur)), kv)
			} else {
				cur = mkval(mkIte(arr[k].guard, lift(v), lift(cur)), kv)
			}
		}
		vals = append(vals, cur)
		phis = append(phis, phi)
	}
	return vals, phis, true
}

// ifConvert tries to fold the If terminating fr.block (condition c) with the
// following pure blocks.  On success fr.block/prevBlock are updated.
func ifConvert(fr *frame, c *Term) bool {
	B := fr.block
	for orient := 0; orient < 2; orient++ {
		M, cont := B.Succs[0], B.Succs[1]
		first, contGuard := c, mkNot(c)
		if orient == 1 {
			M, cont = B.Succs[1], B.Succs[0]
			first, contGuard = mkNot(c), c
		}
		if M == cont || !speculable(cont) {
			continue
		}
		arr := []arrival{{B, first}}
		cur, curGuard := cont, contGuard
		var next *ssa.BasicBlock // where control continues if M is not reached
		var nextPred *ssa.BasicBlock
		all := false // every path reaches M
		progressed := false
		for depth := 0; depth < 8; depth++ {
			specBlock(fr, cur)
			switch term := cur.Instrs[len(cur.Instrs)-1].(type) {
			case *ssa.Jump:
				if cur.Succs[0] == M {
					arr = append(arr, arrival{cur, curGuard})
					all = true
					progressed = true
				} else {
					next, nextPred = cur.Succs[0], cur
				}
			case *ssa.If:
				cv := fr.get(term.Cond)
				ct := asTermBool(cv)
				switch {
				case cur.Succs[0] == M && cur.Succs[1] != M:
					arr = append(arr, arrival{cur, mkAnd(curGuard, ct)})
					next, nextPred = cur.Succs[1], cur
					curGuard = mkAnd(curGuard, mkNot(ct))
					progressed = true
				case cur.Succs[1] == M && cur.Succs[0] != M:
					arr = append(arr, arrival{cur, mkAnd(curGuard, mkNot(ct))})
					next, nextPred = cur.Succs[0], cur
					curGuard = mkAnd(curGuard, ct)
					progressed = true
				default:
					// does not lead to M: cannot fold through this block
					next, nextPred = nil, nil
				}
			}
			if all || next == nil {
				break
			}
			if nextPred == cur && speculable(next) && next != M {
				cur = next
				next = nil
				continue
			}
			break
		}
		if !progressed {
			continue
		}
		if !all && next == nil {
			continue
		}
		vals, phis, ok := mergePhis(fr, M, arr)
		if !ok {
			continue
		}
		var guards []*Term
		for _, a := range arr {
			guards = append(guards, a.guard)
		}
		reach := mkOr(guards...)
		if all || X.Branch(reach) {
			for i, phi := range phis {
				fr.env[phi] = vals[i]
			}
			fr.prevBlock, fr.block = arr[len(arr)-1].pred, M
			fr.phisDone = true
			return true
		}
		fr.prevBlock, fr.block = nextPred, next
		return true
	}
	return false
}
