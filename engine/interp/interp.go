// Copyright 2013 The Go Authors. All rights reserved.
// Use of this source code is governed by a BSD-style
// license that can be found in the LICENSE file.

// Package ssa/interp defines an interpreter for the SSA
// representation of Go programs.
//
// This interpreter is provided as an adjunct for testing the SSA
// construction algorithm.  Its purpose is to provide a minimal
// metacircular implementation of the dynamic semantics of each SSA
// instruction.  It is not, and will never be, a production-quality Go
// interpreter.
//
// The following is a partial list of Go features that are currently
// unsupported or incomplete in the interpreter.
//
// * Unsafe operations, including all uses of unsafe.Pointer, are
// impossible to support given the "boxed" value representation we
// have chosen.
//
// * The reflect package is only partially implemented.
//
// * The "testing" package is no longer supported because it
// depends on low-level details that change too often.
//
// * "sync/atomic" operations are not atomic due to the "boxed" value
// representation: it is not possible to read, modify and write an
// interface value atomically. As a consequence, Mutexes are currently
// broken.
//
// * recover is only partially implemented.  Also, the interpreter
// makes no attempt to distinguish target panics from interpreter
// crashes.
//
// * the sizes of the int, uint and uintptr types in the target
// program are assumed to be the same as those of the interpreter
// itself.
//
// * all values occupy space, even those of types defined by the spec
// to have zero size, e.g. struct{}.  This can cause asymptotic
// performance degradation.
//
// * os.Exit is implemented using panic, causing deferred functions to
// run.
package interp

import (
	"fmt"
	"go/token"
	"go/types"
	"log"
	"os"
	"runtime"
	"slices"

	"golang.org/x/tools/go/ssa"
)

type continuation int

const (
	kNext continuation = iota
	kReturn
	kJump
)

// Mode is a bitmask of options affecting the interpreter.
type Mode uint

const (
	DisableRecover Mode = 1 << iota // Disable recover() in target programs; show interpreter crash instead.
	EnableTracing                   // Print a trace of all instructions as they are interpreted.
)

type methodSet map[string]*ssa.Function

// State shared between all interpreted goroutines.
type interpreter struct {
	prog               *ssa.Program           // the SSA program
	globals            map[*ssa.Global]*value // addresses of global variables (lazily created)
	mode               Mode                   // interpreter options
	runtimeErrorString types.Type             // the runtime.errorString type
	sizes              types.Sizes            // the effective type-sizing function
	pkgInit            map[*ssa.Package]int   // 0 = not run, 1 = running, 2 = done, 3 = refused
	initAllowed        func(pkgPath string) bool
}

type deferred struct {
	fn    value
	args  []value
	instr *ssa.Defer
	tail  *deferred
}

type frame struct {
	i                *interpreter
	caller           *frame
	fn               *ssa.Function
	block, prevBlock *ssa.BasicBlock
	env              map[ssa.Value]value // dynamic values of SSA variables
	locals           []value
	defers           *deferred
	result           value
	panicking        bool
	panic            interface{}
	origin           byte    // race.go: 'l' library, 'h' harness (dependencies inherit)
	phitemps         []value // temporaries for parallel phi assignment
	phisDone         bool    // phis of fr.block were assigned by ifConvert
}

func (fr *frame) get(key ssa.Value) value {
	switch key := key.(type) {
	case nil:
		// Hack; simplifies handling of optional attributes
		// such as ssa.Slice.{Low,High}.
		return nil
	case *ssa.Function, *ssa.Builtin:
		return key
	case *ssa.Const:
		return constValue(key)
	case *ssa.Global:
		return fr.i.global(key)
	}
	if r, ok := fr.env[key]; ok {
		return r
	}
	panic(fmt.Sprintf("get: no value for %T: %v", key, key.Name()))
}

// runDefer runs a deferred call d.
// It always returns normally, but may set or clear fr.panic.
func (fr *frame) runDefer(d *deferred) {
	if fr.i.mode&EnableTracing != 0 {
		fmt.Fprintf(os.Stderr, "%s: invoking deferred function call\n",
			fr.i.prog.Fset.Position(d.instr.Pos()))
	}
	var ok bool
	defer func() {
		if !ok {
			// Deferred call created a new state of panic.
			r := classifyPanic(recover())
			fr.panicking = true
			fr.panic = r
		}
	}()
	call(fr.i, fr, d.instr.Pos(), d.fn, d.args)
	ok = true
}

// runDefers executes fr's deferred function calls in LIFO order.
//
// On entry, fr.panicking indicates a state of panic; if
// true, fr.panic contains the panic value.
//
// On completion, if a deferred call started a panic, or if no
// deferred call recovered from a previous state of panic, then
// runDefers itself panics after the last deferred call has run.
//
// If there was no initial state of panic, or it was recovered from,
// runDefers returns normally.
func (fr *frame) runDefers() {
	for d := fr.defers; d != nil; d = d.tail {
		fr.runDefer(d)
	}
	fr.defers = nil
	if fr.panicking {
		panic(fr.panic) // new panic, or still panicking
	}
}

// lookupMethod returns the method set for type typ, which may be one
// of the interpreter's fake types.
func lookupMethod(i *interpreter, typ types.Type, meth *types.Func) *ssa.Function {
	return i.prog.LookupMethod(typ, meth.Pkg(), meth.Name())
}

// visitInstr interprets a single ssa.Instruction within the activation
// record frame.  It returns a continuation value indicating where to
// read the next instruction from.
func visitInstr(fr *frame, instr ssa.Instruction) continuation {
	X.step()
	if RaceOn {
		g := sched.cur
		g.fr = fr
		g.pos = instr.Pos()
	}
	switch instr := instr.(type) {
	case *ssa.DebugRef:
		// no-op

	case *ssa.UnOp:
		fr.env[instr] = unop(instr, fr.get(instr.X))

	case *ssa.BinOp:
		fr.env[instr] = binop(instr.Op, instr.X.Type(), fr.get(instr.X), fr.get(instr.Y))

	case *ssa.Call:
		fn, args := prepareCall(fr, &instr.Call)
		fr.env[instr] = call(fr.i, fr, instr.Pos(), fn, args)

	case *ssa.ChangeInterface:
		fr.env[instr] = fr.get(instr.X)

	case *ssa.ChangeType:
		fr.env[instr] = fr.get(instr.X) // (can't fail)

	case *ssa.Convert:
		fr.env[instr] = conv(instr.Type(), instr.X.Type(), fr.get(instr.X))

	case *ssa.SliceToArrayPointer:
		fr.env[instr] = sliceToArrayPointer(instr.Type(), instr.X.Type(), fr.get(instr.X))

	case *ssa.MakeInterface:
		fr.env[instr] = iface{t: instr.X.Type(), v: fr.get(instr.X)}

	case *ssa.Extract:
		fr.env[instr] = fr.get(instr.Tuple).(tuple)[instr.Index]

	case *ssa.Slice:
		fr.env[instr] = slice(fr.get(instr.X), concretize(fr.get(instr.Low)), concretize(fr.get(instr.High)), concretize(fr.get(instr.Max)))

	case *ssa.Return:
		switch len(instr.Results) {
		case 0:
		case 1:
			fr.result = fr.get(instr.Results[0])
		default:
			var res []value
			for _, r := range instr.Results {
				res = append(res, fr.get(r))
			}
			fr.result = tuple(res)
		}
		fr.block = nil
		return kReturn

	case *ssa.RunDefers:
		fr.runDefers()

	case *ssa.Panic:
		panic(targetPanic{fr.get(instr.X)})

	case *ssa.Send:
		chanSend(fr.get(instr.Chan).(*channel), fr.get(instr.X))

	case *ssa.Store:
		if sp, ok := fr.get(instr.Addr).(symElemPtr); ok {
			sp.store(fr.get(instr.Val))
			break
		}
		p := fr.get(instr.Addr).(*value)
		if p == nil {
			panic(runtimePanic("runtime error: invalid memory address or nil pointer dereference"))
		}
		store(mustDeref(instr.Addr.Type()), p, fr.get(instr.Val))

	case *ssa.If:
		cond := fr.get(instr.Cond)
		if s, ok := cond.(sym); ok && !X.NoIfConvert {
			if ifConvert(fr, s.t) {
				return kJump
			}
		}
		succ := 1
		if truth(cond) {
			succ = 0
		}
		fr.prevBlock, fr.block = fr.block, fr.block.Succs[succ]
		return kJump

	case *ssa.Jump:
		fr.prevBlock, fr.block = fr.block, fr.block.Succs[0]
		return kJump

	case *ssa.Defer:
		fn, args := prepareCall(fr, &instr.Call)
		defers := &fr.defers
		if into := fr.get(instr.DeferStack); into != nil {
			defers = into.(**deferred)
		}
		*defers = &deferred{
			fn:    fn,
			args:  args,
			instr: instr,
			tail:  *defers,
		}

	case *ssa.Go:
		fn, args := prepareCall(fr, &instr.Call)
		spawn(fr.i, instr.Pos(), fn, args)

	case *ssa.MakeChan:
		fr.env[instr] = newChannel(int(concreteInt64(fr.get(instr.Size))))

	case *ssa.Alloc:
		var addr *value
		if instr.Heap {
			// new
			addr = new(value)
			fr.env[instr] = addr
		} else {
			// local
			addr = fr.env[instr].(*value)
		}
		*addr = zero(mustDeref(instr.Type()))

	case *ssa.MakeSlice:
		capv := concreteInt64(fr.get(instr.Cap))
		lenv := concreteInt64(fr.get(instr.Len))
		if lenv < 0 || lenv > capv {
			panic(runtimePanic("runtime error: makeslice: len out of range"))
		}
		if capv > 1<<20 {
			panic(unsupported(fmt.Sprintf("make([]T, %d): allocation too large for the model", capv)))
		}
		slice := make([]value, capv)
		tElt := instr.Type().Underlying().(*types.Slice).Elem()
		for i := range slice {
			slice[i] = zero(tElt)
		}
		fr.env[instr] = slice[:lenv]

	case *ssa.MakeMap:
		fr.env[instr] = makeMap(instr.Type().Underlying().(*types.Map).Key(), 0)

	case *ssa.Range:
		if RaceOn {
			if m, ok := fr.get(instr.X).(*omap); ok && m != nil {
				raceRead(m)
			}
		}
		fr.env[instr] = rangeIter(fr.get(instr.X), instr.X.Type())

	case *ssa.Next:
		fr.env[instr] = fr.get(instr.Iter).(iter).next()

	case *ssa.FieldAddr:
		p := fr.get(instr.X).(*value)
		if p == nil {
			panic(runtimePanic("runtime error: invalid memory address or nil pointer dereference"))
		}
		fr.env[instr] = &(*p).(structure)[instr.Field]

	case *ssa.Field:
		fr.env[instr] = fr.get(instr.X).(structure)[instr.Field]

	case *ssa.IndexAddr:
		x := fr.get(instr.X)
		idx := fr.get(instr.Index)
		switch x := x.(type) {
		case []value:
			if p, ok := symElem(x, idx); ok {
				fr.env[instr] = p
				break
			}
			fr.env[instr] = &x[indexIn(idx, len(x))]
		case *value: // *array
			if x == nil {
				panic(runtimePanic("runtime error: invalid memory address or nil pointer dereference"))
			}
			a := (*x).(array)
			if p, ok := symElem(a, idx); ok {
				fr.env[instr] = p
				break
			}
			fr.env[instr] = &a[indexIn(idx, len(a))]
		default:
			panic(fmt.Sprintf("unexpected x type in IndexAddr: %T", x))
		}

	case *ssa.Index:
		x := fr.get(instr.X)
		idx := fr.get(instr.Index)

		switch x := x.(type) {
		case array:
			if p, ok := symElem(x, idx); ok {
				fr.env[instr] = p.load()
				break
			}
			fr.env[instr] = x[indexIn(idx, len(x))]
		case string:
			if _, isSym := idx.(sym); isSym {
				if p, ok := symElem(strBytes(x), idx); ok {
					fr.env[instr] = p.load()
					break
				}
			}
			fr.env[instr] = x[indexIn(idx, len(x))]
		case sstr:
			if p, ok := symElem(x.b, idx); ok {
				fr.env[instr] = p.load()
				break
			}
			fr.env[instr] = x.b[indexIn(idx, len(x.b))]
		default:
			panic(fmt.Sprintf("unexpected x type in Index: %T", x))
		}

	case *ssa.Lookup:
		if RaceOn {
			if m, ok := fr.get(instr.X).(*omap); ok && m != nil {
				raceRead(m)
			}
		}
		fr.env[instr] = lookup(instr, fr.get(instr.X), fr.get(instr.Index))

	case *ssa.MapUpdate:
		m := fr.get(instr.Map)
		key := fr.get(instr.Key)
		v := fr.get(instr.Value)
		if RaceOn && m.(*omap) != nil {
			raceWrite(m.(*omap))
		}
		m.(*omap).insert(key, v)

	case *ssa.TypeAssert:
		fr.env[instr] = typeAssert(fr.i, instr, fr.get(instr.X).(iface))

	case *ssa.MakeClosure:
		var bindings []value
		for _, binding := range instr.Bindings {
			bindings = append(bindings, fr.get(binding))
		}
		fr.env[instr] = &closure{instr.Fn.(*ssa.Function), bindings}

	case *ssa.Phi:
		log.Fatal("unreachable") // phis are processed at block entry

	case *ssa.Select:
		fr.env[instr] = doSelect(fr, instr)

	default:
		panic(fmt.Sprintf("unexpected instruction: %T", instr))
	}

	// if val, ok := instr.(ssa.Value); ok {
	// 	fmt.Println(toString(fr.env[val])) // debugging
	// }

	return kNext
}

// prepareCall determines the function value and argument values for a
// function call in a Call, Go or Defer instruction, performing
// interface method lookup if needed.
func prepareCall(fr *frame, call *ssa.CallCommon) (fn value, args []value) {
	v := fr.get(call.Value)
	if call.Method == nil {
		// Function call.
		fn = v
	} else {
		// Interface method invocation.
		recv := v.(iface)
		if recv.t == nil {
			panic(runtimePanic("runtime error: invalid memory address or nil pointer dereference (method invoked on nil interface)"))
		}
		if f := lookupMethod(fr.i, recv.t, call.Method); f == nil {
			// Unreachable in well-typed programs.
			panic(fmt.Sprintf("method set for dynamic type %v does not contain %s", recv.t, call.Method))
		} else {
			fn = f
		}
		args = append(args, recv.v)
	}
	for _, arg := range call.Args {
		args = append(args, fr.get(arg))
	}
	return
}

// call interprets a call to a function (function, builtin or closure)
// fn with arguments args, returning its result.
// callpos is the position of the callsite.
func call(i *interpreter, caller *frame, callpos token.Pos, fn value, args []value) value {
	switch fn := fn.(type) {
	case *ssa.Function:
		if fn == nil {
			panic(runtimePanic("runtime error: invalid memory address or nil pointer dereference (call of nil function)"))
		}
		return callSSA(i, caller, callpos, fn, args, nil)
	case *closure:
		return callSSA(i, caller, callpos, fn.Fn, args, fn.Env)
	case *ssa.Builtin:
		return callBuiltin(caller, callpos, fn, args)
	}
	panic(fmt.Sprintf("cannot call %T", fn))
}

func loc(fset *token.FileSet, pos token.Pos) string {
	if pos == token.NoPos {
		return ""
	}
	return " at " + fset.Position(pos).String()
}

// callSSA interprets a call to function fn with arguments args,
// and lexical environment env, returning its result.
// callpos is the position of the callsite.
func callSSA(i *interpreter, caller *frame, callpos token.Pos, fn *ssa.Function, args []value, env []value) value {
	if i.mode&EnableTracing != 0 {
		fset := fn.Prog.Fset
		// TODO(adonovan): fix: loc() lies for external functions.
		fmt.Fprintf(os.Stderr, "Entering %s%s.\n", fn, loc(fset, fn.Pos()))
		suffix := ""
		if caller != nil {
			suffix = ", resuming " + caller.fn.String() + loc(fset, callpos)
		}
		defer fmt.Fprintf(os.Stderr, "Leaving %s%s.\n", fn, suffix)
	}
	fr := &frame{
		i:      i,
		caller: caller, // for panic/recover
		fn:     fn,
	}
	if RaceOn {
		fr.origin = frameOrigin(caller, fn)
	}
	if fn.Parent() == nil {
		name := fn.String()
		if o := fn.Origin(); o != nil {
			name = o.String()
		}
		if ext := lookupExternal(fn); ext != nil {
			if i.mode&EnableTracing != 0 {
				fmt.Fprintln(os.Stderr, "\t(external)")
			}
			return ext(fr, args)
		}
		if fn.Blocks == nil {
			panic(unsupported("no code for function: " + name))
		}
	}
	if fn.Synthetic == "package initializer" {
		if !i.beginInit(fn.Pkg) {
			return nil
		}
		defer i.endInit(fn.Pkg)
	}
	X.enter(fn)

	// generic function body?
	if fn.TypeParams().Len() > 0 && len(fn.TypeArgs()) == 0 {
		panic("interp requires ssa.BuilderMode to include InstantiateGenerics to execute generics")
	}

	fr.env = make(map[ssa.Value]value)
	fr.block = fn.Blocks[0]
	fr.locals = make([]value, len(fn.Locals))
	for i, l := range fn.Locals {
		fr.locals[i] = zero(mustDeref(l.Type()))
		fr.env[l] = &fr.locals[i]
	}
	for i, p := range fn.Params {
		fr.env[p] = args[i]
	}
	for i, fv := range fn.FreeVars {
		fr.env[fv] = env[i]
	}
	for fr.block != nil {
		runFrame(fr)
	}
	// Destroy the locals to avoid accidental use after return.
	for i := range fn.Locals {
		fr.locals[i] = bad{}
	}
	return fr.result
}

// runFrame executes SSA instructions starting at fr.block and
// continuing until a return, a panic, or a recovered panic.
//
// After a panic, runFrame panics.
//
// After a normal return, fr.result contains the result of the call
// and fr.block is nil.
//
// A recovered panic in a function without named return parameters
// (NRPs) becomes a normal return of the zero value of the function's
// result type.
//
// After a recovered panic in a function with NRPs, fr.result is
// undefined and fr.block contains the block at which to resume
// control.
func runFrame(fr *frame) {
	defer func() {
		if fr.block == nil {
			return // normal return
		}
		if fr.i.mode&DisableRecover != 0 {
			return // let interpreter crash
		}
		r := classifyPanic(recover())
		fr.panicking = true
		fr.panic = r
		if fr.i.mode&EnableTracing != 0 {
			fmt.Fprintf(os.Stderr, "Panicking: %T %v.\n", fr.panic, fr.panic)
		}
		fr.runDefers()
		fr.block = fr.fn.Recover
	}()

	for {
		if fr.i.mode&EnableTracing != 0 {
			fmt.Fprintf(os.Stderr, ".%s:\n", fr.block)
		}

		nonPhis := executePhis(fr)
		for _, instr := range nonPhis {
			if fr.i.mode&EnableTracing != 0 {
				if v, ok := instr.(ssa.Value); ok {
					fmt.Fprintln(os.Stderr, "\t", v.Name(), "=", instr)
				} else {
					fmt.Fprintln(os.Stderr, "\t", instr)
				}
			}
			if visitInstr(fr, instr) == kReturn {
				return
			}
			// Inv: kNext (continue) or kJump (last instr)
		}
	}
}

// executePhis executes the phi-nodes at the start of the current
// block and returns the non-phi instructions.
func executePhis(fr *frame) []ssa.Instruction {
	firstNonPhi := -1
	for i, instr := range fr.block.Instrs {
		if _, ok := instr.(*ssa.Phi); !ok {
			firstNonPhi = i
			break
		}
	}
	// Inv: 0 <= firstNonPhi; every block contains a non-phi.

	nonPhis := fr.block.Instrs[firstNonPhi:]
	if fr.phisDone {
		fr.phisDone = false
		return nonPhis
	}
	if firstNonPhi > 0 {
		phis := fr.block.Instrs[:firstNonPhi]
		// Execute parallel assignment of phis.
		//
		// See "the swap problem" in Briggs et al's "Practical Improvements
		// to the Construction and Destruction of SSA Form" for discussion.
		predIndex := slices.Index(fr.block.Preds, fr.prevBlock)
		fr.phitemps = fr.phitemps[:0]
		for _, phi := range phis {
			phi := phi.(*ssa.Phi)
			if fr.i.mode&EnableTracing != 0 {
				fmt.Fprintln(os.Stderr, "\t", phi.Name(), "=", phi)
			}
			fr.phitemps = append(fr.phitemps, fr.get(phi.Edges[predIndex]))
		}
		for i, phi := range phis {
			fr.env[phi.(*ssa.Phi)] = fr.phitemps[i]
		}
	}
	return nonPhis
}

// doRecover implements the recover() built-in.
func doRecover(caller *frame) value {
	// recover() must be exactly one level beneath the deferred
	// function (two levels beneath the panicking function) to
	// have any effect.  Thus we ignore both "defer recover()" and
	// "defer f() -> g() -> recover()".
	if caller.i.mode&DisableRecover == 0 &&
		caller != nil && !caller.panicking &&
		caller.caller != nil && caller.caller.panicking {
		caller.caller.panicking = false
		p := caller.caller.panic
		caller.caller.panic = nil

		// TODO(adonovan): support runtime.Goexit.
		switch p := p.(type) {
		case targetPanic:
			// The target program explicitly called panic().
			return p.v
		case runtime.Error:
			// The interpreter encountered a runtime error.
			return iface{caller.i.runtimeErrorString, p.Error()}
		case nil:
			return iface{}
		case string:
			// The interpreter explicitly called panic().
			return iface{caller.i.runtimeErrorString, p}
		default:
			panic(fmt.Sprintf("unexpected panic type %T in target call to recover()", p))
		}
	}
	return iface{}
}

