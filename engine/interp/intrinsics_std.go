package interp

import (
	"fmt"
	"go/token"
	"go/types"
	"strconv"
	"strings"

	"golang.org/x/tools/go/ssa"
)

// lazyGlobals construct selected globals of packages whose initialisers are
// not interpreted.
var lazyGlobals = map[string]func(i *interpreter, g *ssa.Global) value{
	"net/http.ErrAbortHandler": func(i *interpreter, g *ssa.Global) value {
		return errorsNew(i, "net/http: abort Handler")
	},
	"net/http.ErrBodyReadAfterClose": func(i *interpreter, g *ssa.Global) value {
		return errorsNew(i, "http: invalid Read on closed Body")
	},
	"net/http.NoBody": func(i *interpreter, g *ssa.Global) value {
		return zero(mustDeref(g.Type()))
	},
	"errors.ErrUnsupported": func(i *interpreter, g *ssa.Global) value {
		return errorsNew(i, "unsupported operation")
	},
	"os.ErrDeadlineExceeded": func(i *interpreter, g *ssa.Global) value {
		return errorsNew(i, "i/o timeout")
	},
}

// globals of uninterpreted packages that may be read as zero values.
var zeroOKPackages = map[string]bool{
	"internal/cpu": true, "internal/godebug": true, "internal/race": true,
}

var zeroOKGlobals = map[string]bool{
	"errors.errorType": true,
	"net/http.http2VerboseLogs": true,
	"internal/godebug.empty":    true,
	"sync.expunged":             true,
	"unicode.CaseRanges":        true,
}

func init() {
	register(map[string]externalFn{
		// ---- sync ----
		"(*sync.Mutex).Lock":      func(fr *frame, a []value) value { mutexLock(a[0].(*value)); return nil },
		"(*sync.Mutex).Unlock":    func(fr *frame, a []value) value { mutexUnlock(a[0].(*value)); return nil },
		"(*sync.Mutex).TryLock":   extMutexTryLock,
		"(*sync.RWMutex).Lock":    func(fr *frame, a []value) value { mutexLock(a[0].(*value)); return nil },
		"(*sync.RWMutex).Unlock":  func(fr *frame, a []value) value { mutexUnlock(a[0].(*value)); return nil },
		"(*sync.RWMutex).RLock":   func(fr *frame, a []value) value { mutexLock(a[0].(*value)); return nil },
		"(*sync.RWMutex).RUnlock": func(fr *frame, a []value) value { mutexUnlock(a[0].(*value)); return nil },
		"(*sync.Once).Do":         extOnceDo,
		"(*sync.Pool).Get":        extPoolGet,
		"(*sync.Pool).Put":        extPoolPut,
		"(*sync.WaitGroup).Add":   extWGAdd,
		"(*sync.WaitGroup).Done":  func(fr *frame, a []value) value { return extWGAdd(fr, []value{a[0], -1}) },
		"(*sync.WaitGroup).Wait":  extWGWait,

		// ---- sync/atomic ----
		"sync/atomic.LoadInt32":   extAtomicLoad,
		"sync/atomic.LoadInt64":   extAtomicLoad,
		"sync/atomic.LoadUint32":  extAtomicLoad,
		"sync/atomic.LoadUint64":  extAtomicLoad,
		"sync/atomic.LoadPointer": extAtomicLoad,
		"sync/atomic.LoadUintptr": extAtomicLoad,
		"sync/atomic.StoreInt32":  extAtomicStore,
		"sync/atomic.StoreInt64":  extAtomicStore,
		"sync/atomic.StoreUint32": extAtomicStore,
		"sync/atomic.StoreUint64": extAtomicStore,
		"sync/atomic.AddInt32":    extAtomicAdd,
		"sync/atomic.AddInt64":    extAtomicAdd,
		"sync/atomic.AddUint32":   extAtomicAdd,
		"sync/atomic.AddUint64":   extAtomicAdd,
		"sync/atomic.CompareAndSwapInt32":  extAtomicCAS,
		"sync/atomic.CompareAndSwapInt64":  extAtomicCAS,
		"sync/atomic.CompareAndSwapUint32": extAtomicCAS,
		"sync/atomic.CompareAndSwapUint64": extAtomicCAS,

		// ---- errors / fmt ----
		"errors.Is":    extErrorsIs,
		"errors.As":    extErrorsAs,
		"fmt.Errorf":   extFmtErrorf,
		"fmt.Sprintf":  extFmtSprintf,
		"fmt.Sprint":   extFmtSprint,
		"fmt.Sprintln": extFmtSprint,

		// ---- strconv formatting (parsing is interpreted) ----
		"strconv.Itoa":       func(fr *frame, a []value) value { return formatInt(a[0], 10) },
		"strconv.FormatInt":  func(fr *frame, a []value) value { return formatInt(a[0], int(concreteInt64(a[1]))) },
		"strconv.FormatUint": func(fr *frame, a []value) value { return formatInt(a[0], int(concreteInt64(a[1]))) },
		"strconv.Quote":      func(fr *frame, a []value) value { return quoteString(a[0]) },

		// ---- internal/bytealg ----
		"internal/bytealg.IndexByte":       extIndexByte,
		"internal/bytealg.IndexByteString": extIndexByte,
		"internal/bytealg.CountString":     extCountByte,
		"internal/bytealg.Count":           extCountByte,
		"internal/bytealg.Equal":           extBytesEqual,
		"bytes.Equal":                      extBytesEqual,
		"internal/bytealg.Compare":         extBytesCompare,
		"internal/bytealg.CompareString":   extBytesCompare,
		"strings.Compare":                  extBytesCompare,
		"internal/bytealg.MakeNoZero":      extMakeNoZero,
		"internal/bytealg.IndexString":     extIndexString,
		"internal/bytealg.Index":           extIndexString,
		"strings.Index":                    extIndexString,
		"bytes.Index":                      extIndexString,
		"internal/stringslite.Index":       extIndexString,
		"internal/bytealg.LastIndexByteString": extLastIndexByte,
		"internal/bytealg.LastIndexByte":       extLastIndexByte,

		// ---- misc runtime ----
		"runtime.Version":          func(fr *frame, a []value) value { return "go1.23.5" },
		"runtime.Gosched":          func(fr *frame, a []value) value { yield(); return nil },
		"runtime.KeepAlive":        noop,
		"runtime.SetFinalizer":     noop,
		"internal/race.Enabled":    noop,
		"internal/race.Acquire":    noop,
		"internal/race.Release":    noop,
		"internal/race.ReleaseMerge": noop,
		"internal/race.Disable":    noop,
		"internal/race.Enable":     noop,
		"internal/race.Read":       noop,
		"internal/race.Write":      noop,
		"internal/race.ReadRange":  noop,
		"internal/race.WriteRange": noop,
		"internal/godebug.(*Setting).Value": func(fr *frame, a []value) value { return "" },
		"internal/godebug.(*Setting).IncNonDefault": noop,
		"(*internal/godebug.Setting).Value":         func(fr *frame, a []value) value { return "" },
		"(*internal/godebug.Setting).IncNonDefault": noop,
		"(*strings.Builder).copyCheck":              noop,
		"internal/abi.NoEscape":                     func(fr *frame, a []value) value { return a[0] },
		"internal/stringslite.Clone":                func(fr *frame, a []value) value { return a[0] },
		"strings.Clone":                             func(fr *frame, a []value) value { return a[0] },
		"strings.ToLower":                           func(fr *frame, a []value) value { return caseMap(fr, a[0], false) },
		"strings.ToUpper":                           func(fr *frame, a []value) value { return caseMap(fr, a[0], true) },
		"strconv.cloneString":                       func(fr *frame, a []value) value { return a[0] },
		"math.Float64bits":                          func(fr *frame, a []value) value { return mathFloat64bits(a[0].(float64)) },

	})
}

func mathFloat64bits(f float64) uint64 {
	return uint64(int64(f)) // only used on integral constants in the code we reach
}

func extMutexTryLock(fr *frame, a []value) value {
	m := mutexOf(a[0].(*value))
	if m.locked {
		return false
	}
	m.locked = true
	raceAcquire(a[0].(*value))
	return true
}

// ---- sync.Once ------------------------------------------------------------------

type onceState struct {
	done    bool
	running bool
}

func extOnceDo(fr *frame, a []value) value {
	addr := a[0].(*value)
	st, _ := X.extra[fmt.Sprintf("once:%p", addr)].(*onceState)
	if st == nil {
		st = &onceState{}
		X.extra[fmt.Sprintf("once:%p", addr)] = st
	}
	yield()
	for st.running {
		// another goroutine is inside Do: wait for it.
		w := sched.cur
		st2 := st
		X.onceWaiters = append(X.onceWaiters, onceWaiter{st2, w})
		block("sync.Once")
	}
	if st.done {
		raceAcquire(st)
		return nil
	}
	st.running = true
	defer func() {
		raceRelease(st)
		st.running = false
		st.done = true
		keep := X.onceWaiters[:0]
		for _, ow := range X.onceWaiters {
			if ow.st == st {
				makeRunnable(ow.g)
			} else {
				keep = append(keep, ow)
			}
		}
		X.onceWaiters = keep
	}()
	call(fr.i, fr, token.NoPos, a[1], nil)
	return nil
}

type onceWaiter struct {
	st *onceState
	g  *gor
}

// ---- sync.WaitGroup -----------------------------------------------------------------

type wgState struct {
	n       int64
	waiters []*gor
}

func wgOf(addr *value) *wgState {
	k := fmt.Sprintf("wg:%p", addr)
	st, _ := X.extra[k].(*wgState)
	if st == nil {
		st = &wgState{}
		X.extra[k] = st
	}
	return st
}

func extWGAdd(fr *frame, a []value) value {
	st := wgOf(a[0].(*value))
	raceRelease(st)
	st.n += concreteInt64(a[1])
	if st.n < 0 {
		panic(runtimePanic("sync: negative WaitGroup counter"))
	}
	if st.n == 0 {
		for _, g := range st.waiters {
			makeRunnable(g)
		}
		st.waiters = nil
	}
	return nil
}

func extWGWait(fr *frame, a []value) value {
	st := wgOf(a[0].(*value))
	for st.n > 0 {
		st.waiters = append(st.waiters, sched.cur)
		block("WaitGroup")
	}
	raceAcquire(st)
	return nil
}

// ---- sync.Pool model ------------------------------------------------------------------
//
// Get returns New() or an object previously Put (LIFO by default, any pooled
// object when Explorer.PoolAny is set: a Choice decision).  Put havocs the
// released object's byte contents (fresh symbolic bytes): any later use
// through a stale alias then yields unconstrained data, which the harness
// assertions catch.  Objects are havocked only if they are *bytes.Buffer.

type poolState struct {
	items []value
}

func extPoolGet(fr *frame, a []value) value {
	addr := a[0].(*value)
	ps := X.pools[addr]
	if ps == nil {
		ps = &poolState{}
		X.pools[addr] = ps
	}
	yield()
	n := len(ps.items)
	if n > 0 {
		k := n - 1
		if X.PoolAny {
			// choose any pooled object, or none (as if the GC had emptied the pool)
			c := X.Choice(n + 1)
			if c == n {
				k = -1
			} else {
				k = n - 1 - c
			}
		}
		if k >= 0 {
			it := ps.items[k]
			ps.items = append(ps.items[:k:k], ps.items[k+1:]...)
			raceAcquire(poolItemKey{it.(iface).v})
			return it
		}
	}
	poolT := mustDeref(fr.fn.Params[0].Type())
	newFn := (*addr).(structure)[fieldIndex(poolT, "New")]
	switch f := newFn.(type) {
	case *ssa.Function:
		if f == nil {
			return iface{}
		}
	}
	return call(fr.i, fr, token.NoPos, newFn, nil)
}

func extPoolPut(fr *frame, a []value) value {
	addr := a[0].(*value)
	it := a[1].(iface)
	if it.t == nil {
		return nil
	}
	ps := X.pools[addr]
	if ps == nil {
		ps = &poolState{}
		X.pools[addr] = ps
	}
	for _, old := range ps.items {
		if oi := old.(iface); sameType(oi.t, it.t) {
			if p, ok := oi.v.(*value); ok && p == it.v {
				// recorded as a violation candidate; execution continues so that
				// the harness's own checks see the consequences (the pool now
				// hands the object to two callers), which is what reproduces
				// natively
				X.violation("sync.Pool: the same object was released twice", nil)
			}
		}
	}
	if !X.NoPoolHavoc {
		havocPooled(it)
	}
	raceRelease(poolItemKey{it.v})
	ps.items = append(ps.items, it)
	yield()
	return nil
}

// havocPooled overwrites the backing array of a released *bytes.Buffer with
// fresh symbolic bytes.
func havocPooled(it iface) {
	pt, ok := it.t.(*types.Pointer)
	if !ok {
		return
	}
	nt, ok := pt.Elem().(*types.Named)
	if !ok || nt.Obj().Pkg() == nil || nt.Obj().Pkg().Path() != "bytes" || nt.Obj().Name() != "Buffer" {
		return
	}
	p := it.v.(*value)
	if p == nil {
		return
	}
	st := (*p).(structure)
	buf, _ := st[fieldIndex(nt, "buf")].([]value)
	full := buf[:cap(buf)]
	if len(full) > 64 {
		// only the prefix that small-bound harnesses can observe
		full = full[:64]
	}
	X.havocSeq++
	for i := range full {
		v := mkVar(fmt.Sprintf("havoc%d[%d]", X.havocSeq, i), BV(8))
		full[i] = sym{v, types.Uint8}
	}
}

// ---- sync/atomic ---------------------------------------------------------------------------

func extAtomicLoad(fr *frame, a []value) value {
	yield()
	raceAcquire(a[0].(*value))
	return *(a[0].(*value))
}
func extAtomicStore(fr *frame, a []value) value {
	yield()
	raceAcquire(a[0].(*value))
	raceRelease(a[0].(*value))
	*(a[0].(*value)) = a[1]
	return nil
}
func extAtomicAdd(fr *frame, a []value) value {
	yield()
	p := a[0].(*value)
	raceAcquire(p)
	raceRelease(p)
	*p = binop(token.ADD, nil, *p, a[1])
	return *p
}
func extAtomicCAS(fr *frame, a []value) value {
	yield()
	p := a[0].(*value)
	raceAcquire(p)
	raceRelease(p)
	if truth(binop(token.EQL, types.Typ[types.Int64], *p, a[1])) {
		*p = a[2]
		return true
	}
	return false
}

// ---- errors.Is / errors.As -------------------------------------------------------------------

// findMethod returns the method named name of dynamic type t, or nil.
func findMethod(i *interpreter, t types.Type, name string) *ssa.Function {
	ms := i.prog.MethodSets.MethodSet(t)
	for k := 0; k < ms.Len(); k++ {
		sel := ms.At(k)
		if sel.Obj().Name() == name {
			return i.prog.MethodValue(sel)
		}
	}
	return nil
}

func isErrorResult(sig *types.Signature) bool {
	return sig.Results().Len() == 1 && types.Identical(sig.Results().At(0).Type(), types.Universe.Lookup("error").Type())
}

// unwrapErr implements the Unwrap step shared by Is and As.
func unwrapErr(fr *frame, err iface) (single iface, multi []value, kind int) {
	m := findMethod(fr.i, err.t, "Unwrap")
	if m == nil {
		return iface{}, nil, 0
	}
	sig := m.Signature
	if sig.Params().Len() != 0 || sig.Results().Len() != 1 {
		return iface{}, nil, 0
	}
	if isErrorResult(sig) {
		r := call(fr.i, fr, token.NoPos, m, []value{err.v}).(iface)
		return r, nil, 1
	}
	if sl, ok := sig.Results().At(0).Type().Underlying().(*types.Slice); ok && types.Identical(sl.Elem(), types.Universe.Lookup("error").Type()) {
		r, _ := call(fr.i, fr, token.NoPos, m, []value{err.v}).([]value)
		return iface{}, r, 2
	}
	return iface{}, nil, 0
}

func extErrorsIs(fr *frame, a []value) value {
	err, target := a[0].(iface), a[1].(iface)
	if err.t == nil || target.t == nil {
		return err.t == nil && target.t == nil
	}
	comparable := types.Comparable(target.t)
	errT := types.Universe.Lookup("error").Type()
	var is func(err iface, depth int) bool
	is = func(err iface, depth int) bool {
		for {
			if depth > 64 {
				panic(pathAbort{abortBound, "errors.Is: chain deeper than 64"})
			}
			depth++
			if comparable && sameType(err.t, target.t) && truth(mkbool(equalsT(errT, err, target))) {
				return true
			}
			if m := findMethod(fr.i, err.t, "Is"); m != nil && m.Signature.Params().Len() == 1 &&
				types.Identical(m.Signature.Params().At(0).Type(), errT) {
				if truth(call(fr.i, fr, token.NoPos, m, []value{err.v, target})) {
					return true
				}
			}
			single, multi, kind := unwrapErr(fr, err)
			switch kind {
			case 1:
				if single.t == nil {
					return false
				}
				err = single
			case 2:
				for _, e := range multi {
					if ei := e.(iface); ei.t != nil && is(ei, depth) {
						return true
					}
				}
				return false
			default:
				return false
			}
		}
	}
	return is(err, 0)
}

func extErrorsAs(fr *frame, a []value) value {
	err, target := a[0].(iface), a[1].(iface)
	if err.t == nil {
		return false
	}
	if target.t == nil {
		panic(targetPanic{iface{types.Typ[types.String], "errors: target cannot be nil"}})
	}
	pt, ok := target.t.Underlying().(*types.Pointer)
	if !ok || target.v.(*value) == nil {
		panic(targetPanic{iface{types.Typ[types.String], "errors: target must be a non-nil pointer"}})
	}
	targetType := pt.Elem()
	_, targetIsIface := targetType.Underlying().(*types.Interface)
	cell := target.v.(*value)
	var as func(err iface, depth int) bool
	as = func(err iface, depth int) bool {
		for {
			if depth > 64 {
				panic(pathAbort{abortBound, "errors.As: chain deeper than 64"})
			}
			depth++
			if targetIsIface {
				if types.Implements(err.t, targetType.Underlying().(*types.Interface)) {
					*cell = err
					return true
				}
			} else if types.Identical(err.t, targetType) {
				store(targetType, cell, err.v)
				return true
			}
			if m := findMethod(fr.i, err.t, "As"); m != nil && m.Signature.Params().Len() == 1 {
				if truth(call(fr.i, fr, token.NoPos, m, []value{err.v, target})) {
					return true
				}
			}
			single, multi, kind := unwrapErr(fr, err)
			switch kind {
			case 1:
				if single.t == nil {
					return false
				}
				err = single
			case 2:
				for _, e := range multi {
					if ei := e.(iface); ei.t != nil && as(ei, depth) {
						return true
					}
				}
				return false
			default:
				return false
			}
		}
	}
	return as(err, 0)
}

// ---- fmt model ----------------------------------------------------------------------------------

// fmtArg renders one operand for verb v; it returns the bytes and, for %w,
// the operand itself.
func fmtArg(fr *frame, verb byte, flags string, arg value) []value {
	it, ok := arg.(iface)
	if !ok {
		return strBytes(fmt.Sprintf("%%!%c(?)", verb))
	}
	if verb == 'T' {
		if it.t == nil {
			return strBytes("<nil>")
		}
		return strBytes(typeString(it.t))
	}
	if it.t == nil {
		if verb == 'v' || verb == 's' || verb == 'w' {
			if verb == 'v' {
				return strBytes("<nil>")
			}
			return strBytes("%!" + string(verb) + "(<nil>)")
		}
		return strBytes("%!" + string(verb) + "(<nil>)")
	}
	v := it.v
	switch verb {
	case 'v', 's', 'w', 'q':
		// error / Stringer
		if p, isPtr := v.(*value); isPtr && p == nil {
			// nil pointer receiver: fmt prints <nil>
			return strBytes("<nil>")
		}
		var s value
		if m := findMethod(fr.i, it.t, "Error"); m != nil && m.Signature.Params().Len() == 0 && m.Signature.Results().Len() == 1 {
			s = call(fr.i, fr, token.NoPos, m, []value{v})
		} else if m := findMethod(fr.i, it.t, "String"); m != nil && m.Signature.Params().Len() == 0 && m.Signature.Results().Len() == 1 {
			s = call(fr.i, fr, token.NoPos, m, []value{v})
		} else if isStr(v) {
			s = v
		}
		if s != nil {
			if verb == 'q' {
				return strBytes(quoteString(s))
			}
			return strBytes(s)
		}
		if k, ok := kindOf(v); ok {
			if k == types.Bool {
				if truth(v) {
					return strBytes("true")
				}
				return strBytes("false")
			}
			return strBytes(formatInt(v, 10))
		}
		if sl, ok := v.([]value); ok && verb != 'q' {
			// []byte / []string etc: approximate
			out := []value{uint8('[')}
			for i, e := range sl {
				if i > 0 {
					out = append(out, uint8(' '))
				}
				out = append(out, fmtArg(fr, 'v', "", iface{elemTypeOf(it.t), e})...)
			}
			return append(out, uint8(']'))
		}
		X.noteIntrinsic("fmt:approx:%" + string(verb) + ":" + it.t.String())
		return strBytes("<" + it.t.String() + ">")
	case 'd':
		if _, ok := kindOf(v); ok {
			return strBytes(formatInt(v, 10))
		}
	case 'x', 'X':
		if k, ok := kindOf(v); ok && k != types.Bool {
			pad := 0
			if strings.HasPrefix(flags, "0") && len(flags) == 2 {
				pad = int(flags[1] - '0')
			}
			return hexFormat(v, verb == 'X', pad)
		}
	case 'c':
		if _, ok := kindOf(v); ok {
			return strBytes(string(rune(concreteInt64(v))))
		}
	case 't':
		if truth(v) {
			return strBytes("true")
		}
		return strBytes("false")
	}
	X.noteIntrinsic("fmt:approx:%" + string(verb) + ":" + it.t.String())
	return strBytes("%!" + string(verb) + "(" + it.t.String() + ")")
}

func elemTypeOf(t types.Type) types.Type {
	switch u := t.Underlying().(type) {
	case *types.Slice:
		return u.Elem()
	case *types.Array:
		return u.Elem()
	}
	return t
}

func typeString(t types.Type) string {
	return types.TypeString(t, func(p *types.Package) string { return p.Name() })
}

// formatModel interprets a printf format; returns the bytes and the index of
// the %w operand (-1 if none).
func formatModel(fr *frame, format string, args []value) ([]value, []int) {
	var out []value
	var wraps []int
	argi := 0
	for i := 0; i < len(format); i++ {
		c := format[i]
		if c != '%' {
			out = append(out, c)
			continue
		}
		i++
		if i >= len(format) {
			out = append(out, strBytes("%!(NOVERB)")...)
			break
		}
		if format[i] == '%' {
			out = append(out, uint8('%'))
			continue
		}
		j := i
		for j < len(format) && strings.IndexByte("+-# 0123456789.", format[j]) >= 0 {
			j++
		}
		flags := format[i:j]
		if j >= len(format) {
			out = append(out, strBytes("%!(NOVERB)")...)
			break
		}
		verb := format[j]
		i = j
		if argi >= len(args) {
			out = append(out, strBytes("%!"+string(verb)+"(MISSING)")...)
			continue
		}
		if verb == 'w' {
			wraps = append(wraps, argi)
		}
		out = append(out, fmtArg(fr, verb, flags, args[argi])...)
		argi++
	}
	if argi < len(args) {
		out = append(out, strBytes("%!(EXTRA ...)")...)
	}
	return out, wraps
}

func extFmtSprintf(fr *frame, a []value) value {
	args, _ := a[1].([]value)
	b, _ := formatModel(fr, concreteString(a[0]), args)
	return mkstr(b)
}

func extFmtSprint(fr *frame, a []value) value {
	args, _ := a[0].([]value)
	var out []value
	for i, x := range args {
		if i > 0 {
			out = append(out, uint8(' '))
		}
		out = append(out, fmtArg(fr, 'v', "", x)...)
	}
	return mkstr(out)
}

func extFmtErrorf(fr *frame, a []value) value {
	args, _ := a[1].([]value)
	b, wraps := formatModel(fr, concreteString(a[0]), args)
	msg := mkstr(b)
	var wrapped []iface
	for _, w := range wraps {
		if it, ok := args[w].(iface); ok && it.t != nil {
			if types.Implements(it.t, types.Universe.Lookup("error").Type().Underlying().(*types.Interface)) {
				wrapped = append(wrapped, it)
				continue
			}
		}
		wrapped = append(wrapped, iface{})
	}
	switch len(wraps) {
	case 0:
		return errorsNew(fr.i, msg)
	case 1:
		t := pkgType(fr.i, "fmt", "wrapError")
		p := newObj(t)
		st := (*p).(structure)
		st[fieldIndex(t, "msg")] = msg
		st[fieldIndex(t, "err")] = wrapped[0]
		return iface{t: types.NewPointer(t), v: p}
	default:
		t := pkgType(fr.i, "fmt", "wrapErrors")
		p := newObj(t)
		st := (*p).(structure)
		st[fieldIndex(t, "msg")] = msg
		var errs []value
		for _, w := range wrapped {
			if w.t != nil {
				errs = append(errs, w)
			}
		}
		st[fieldIndex(t, "errs")] = errs
		return iface{t: types.NewPointer(t), v: p}
	}
}

// quoteString models strconv.Quote / %q.  Concrete strings are quoted
// exactly; symbolic bytes are passed through between quotes (exact only for
// printable ASCII other than '"' and '\\'; recorded as an approximation).
func quoteString(s value) value {
	if cs, ok := s.(string); ok {
		return strconv.Quote(cs)
	}
	X.noteIntrinsic("fmt:approx:%q:symbolic")
	out := []value{uint8('"')}
	out = append(out, strBytes(s)...)
	out = append(out, uint8('"'))
	return mkstr(out)
}

// ---- integer formatting ------------------------------------------------------------------------------

func pow10(k int) uint64 {
	r := uint64(1)
	for i := 0; i < k; i++ {
		r *= 10
	}
	return r
}

// formatInt models strconv.FormatInt/FormatUint/Itoa for base 10 (and 16 for
// concrete values): symbolic operands fork on sign and digit count, each
// digit is (v / 10^i) mod 10.
func formatInt(v value, base int) value {
	k, ok := kindOf(v)
	if !ok {
		panic(unsupported(fmt.Sprintf("formatInt on %T", v)))
	}
	s, isS := v.(sym)
	if !isS {
		if kindSigned(k) {
			return strconv.FormatInt(asInt64(v), base)
		}
		return strconv.FormatUint(bitsOf(v), base)
	}
	if base != 10 {
		v = concretize(v)
		return formatInt(v, base)
	}
	if liaMode {
		return liaFormatInt(s)
	}
	w := kindWidth(k)
	t := s.t
	neg := false
	if kindSigned(k) {
		if X.Branch(mkBvCmp(OpBvSlt, t, mkConst(t.sort, 0))) {
			neg = true
			t = mkBvNeg(t) // as unsigned magnitude (MinInt maps to itself = 2^(w-1))
		}
	}
	// digit count
	maxDigits := len(strconv.FormatUint(mask(w), 10))
	nd := maxDigits
	for d := 1; d < maxDigits; d++ {
		if X.Branch(mkBvCmp(OpBvUlt, t, mkConst(t.sort, pow10(d)))) {
			nd = d
			break
		}
	}
	var out []value
	if neg {
		out = append(out, uint8('-'))
	}
	for i := nd - 1; i >= 0; i-- {
		q := mkBv(OpBvUDiv, t, mkConst(t.sort, pow10(i)))
		d := mkBv(OpBvURem, q, mkConst(t.sort, 10))
		d8 := mkExtract(d, 7, 0)
		out = append(out, mkval(mkBv(OpBvAdd, d8, mkConst(BV(8), '0')), types.Uint8))
	}
	return mkstr(out)
}

func hexDigitTerm(nib *Term, upper bool) *Term {
	// nib: BV4 -> BV8 ascii
	n8 := mkZext(nib, 8)
	a := byte('a')
	if upper {
		a = 'A'
	}
	return mkIte(mkBvCmp(OpBvUlt, n8, mkConst(BV(8), 10)),
		mkBv(OpBvAdd, n8, mkConst(BV(8), '0')),
		mkBv(OpBvAdd, n8, mkConst(BV(8), uint64(a-10))))
}

func hexFormat(v value, upper bool, pad int) []value {
	s, isS := v.(sym)
	if !isS {
		f := "%x"
		if upper {
			f = "%X"
		}
		str := fmt.Sprintf(f, bitsOf(v))
		for len(str) < pad {
			str = "0" + str
		}
		return strBytes(str)
	}
	if liaMode {
		panic(unsupported("hex formatting in LIA mode"))
	}
	w := kindWidth(s.kind)
	if w == 8 && pad == 2 {
		hi := mkExtract(s.t, 7, 4)
		lo := mkExtract(s.t, 3, 0)
		return []value{mkval(hexDigitTerm(hi, upper), types.Uint8), mkval(hexDigitTerm(lo, upper), types.Uint8)}
	}
	return hexFormat(concretize(v), upper, pad)
}

// ---- internal/bytealg ------------------------------------------------------------------------------------

func bytesOf(v value) []value {
	switch v := v.(type) {
	case []value:
		return v
	case string, sstr:
		return strBytes(v)
	}
	panic(fmt.Sprintf("bytesOf: %T", v))
}

func byteEq(a, b value) bool {
	return truth(mkbool(mkEq(lift(a), lift(b))))
}

func extIndexByte(fr *frame, a []value) value {
	s := bytesOf(a[0])
	for i, b := range s {
		if byteEq(b, a[1]) {
			return i
		}
	}
	return -1
}

func extLastIndexByte(fr *frame, a []value) value {
	s := bytesOf(a[0])
	for i := len(s) - 1; i >= 0; i-- {
		if byteEq(s[i], a[1]) {
			return i
		}
	}
	return -1
}

func extCountByte(fr *frame, a []value) value {
	s := bytesOf(a[0])
	n := 0
	for _, b := range s {
		if byteEq(b, a[1]) {
			n++
		}
	}
	return n
}

func extBytesEqual(fr *frame, a []value) value {
	x, y := bytesOf(a[0]), bytesOf(a[1])
	if len(x) != len(y) {
		return false
	}
	conj := make([]*Term, len(x))
	for i := range x {
		conj[i] = mkEq(lift(x[i]), lift(y[i]))
	}
	return mkbool(mkAnd(conj...))
}

func extBytesCompare(fr *frame, a []value) value {
	x, y := mkstr(bytesOf(a[0])), mkstr(bytesOf(a[1]))
	if truth(mkbool(strEqT(x, y))) {
		return 0
	}
	if truth(mkbool(strLessT(x, y))) {
		return -1
	}
	return 1
}

func extMakeNoZero(fr *frame, a []value) value {
	n := int(concreteInt64(a[0]))
	out := make([]value, n)
	for i := range out {
		out[i] = uint8(0)
	}
	return out
}

func extIndexString(fr *frame, a []value) value {
	s, sub := bytesOf(a[0]), bytesOf(a[1])
	n := len(sub)
	for i := 0; i+n <= len(s); i++ {
		conj := make([]*Term, n)
		for j := 0; j < n; j++ {
			conj[j] = mkEq(lift(s[i+j]), lift(sub[j]))
		}
		if truth(mkbool(mkAnd(conj...))) {
			return i
		}
	}
	return -1
}

// symInRange returns lo <= s <= hi (unsigned/signed per kind) as a term.
func symInRange(s sym, lo, hi uint64) *Term {
	if liaMode {
		return mkAnd(mk(OpILe, BoolSort, mkConst(IntSort, lo), s.t), mk(OpILe, BoolSort, s.t, mkConst(IntSort, hi)))
	}
	le := OpBvUle
	if kindSigned(s.kind) {
		le = OpBvSle
	}
	return mkAnd(mkBvCmp(le, mkConst(s.t.sort, lo), s.t), mkBvCmp(le, s.t, mkConst(s.t.sort, hi)))
}

// caseMap models strings.ToLower / ToUpper.  Concrete strings use the real
// function; symbolic bytes are mapped with an ite on the ASCII letter range
// (a symbolic byte >= 0x80 forks and falls back to concretising the string,
// because non-ASCII case mapping is rune based).
func caseMap(fr *frame, s value, upper bool) value {
	if cs, ok := s.(string); ok {
		if upper {
			return strings.ToUpper(cs)
		}
		return strings.ToLower(cs)
	}
	if liaMode {
		return caseMap(fr, concreteString(s), upper)
	}
	b := strBytes(s)
	for _, x := range b {
		if sx, ok := x.(sym); ok {
			if !X.Branch(mkBvCmp(OpBvUlt, sx.t, mkConst(BV(8), 0x80))) {
				return caseMap(fr, concreteString(s), upper)
			}
		} else if x.(uint8) >= 0x80 {
			return caseMap(fr, concreteString(s), upper)
		}
	}
	out := make([]value, len(b))
	lo, hi, delta := byte('A'), byte('Z'), uint64(0x20)
	if upper {
		lo, hi = 'a', 'z'
	}
	for i, x := range b {
		t := lift(x)
		in := mkAnd(mkBvCmp(OpBvUle, mkConst(BV(8), uint64(lo)), t), mkBvCmp(OpBvUle, t, mkConst(BV(8), uint64(hi))))
		var mapped *Term
		if upper {
			mapped = mkBv(OpBvSub, t, mkConst(BV(8), delta))
		} else {
			mapped = mkBv(OpBvAdd, t, mkConst(BV(8), delta))
		}
		out[i] = mkval(mkIte(in, mapped, t), types.Uint8)
	}
	return mkstr(out)
}
