package interp

// LIA mode: Go integers as mathematical Ints with explicit wrap-around.
// (Filled in by lia_impl.go; these are the entry points used by sym.go.)

import (
	"go/token"
	"go/types"
)

func liaBinop(op token.Token, kx, ky types.BasicKind, x, y value) value {
	return liaBinopImpl(op, kx, ky, x, y)
}

func liaUnop(op token.Token, s sym) value { return liaUnopImpl(op, s) }

func liaConv(x sym, dst types.BasicKind) value { return liaConvImpl(x, dst) }
