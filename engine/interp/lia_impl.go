package interp

// LIA mode (//verif:ints=lia): every Go integer is an SMT Int constrained to
// its type's range; arithmetic wraps explicitly.  Used for kernels whose
// multiplications/divisions by large constants stall bit-blasting
// (gRPC/Connect timeout encoding).

import (
	"fmt"
	"go/token"
	"go/types"
	"math/big"
)

func mkIntBig(b *big.Int) *Term {
	if b.IsInt64() {
		return mkConst(IntSort, uint64(b.Int64()))
	}
	return ts.intern(&Term{op: OpConst, sort: IntSort, name: b.String()})
}

func intConstBig(t *Term) (*big.Int, bool) {
	if t.op != OpConst || t.sort.W >= 0 {
		return nil, false
	}
	if t.name != "" {
		b, _ := new(big.Int).SetString(t.name, 10)
		return b, true
	}
	return big.NewInt(int64(t.val)), true
}

func pow2(w int) *big.Int { return new(big.Int).Lsh(big.NewInt(1), uint(w)) }

func liaRangeBig(k types.BasicKind) (lo, hi *big.Int) {
	w := kindWidth(k)
	if kindSigned(k) {
		return new(big.Int).Neg(pow2(w - 1)), new(big.Int).Sub(pow2(w-1), big.NewInt(1))
	}
	return big.NewInt(0), new(big.Int).Sub(pow2(w), big.NewInt(1))
}

func liaRange(k types.BasicKind) (lo, hi *Term) {
	w := kindWidth(k)
	if kindSigned(k) {
		l := new(big.Int).Neg(pow2(w - 1))
		h := new(big.Int).Sub(pow2(w-1), big.NewInt(1))
		return mkIntBig(l), mkIntBig(h)
	}
	return mkConst(IntSort, 0), mkIntBig(new(big.Int).Sub(pow2(w), big.NewInt(1)))
}

func mkI(op Op, a, b *Term) *Term {
	ba, oka := intConstBig(a)
	bb, okb := intConstBig(b)
	if oka && okb {
		r := new(big.Int)
		switch op {
		case OpIAdd:
			return mkIntBig(r.Add(ba, bb))
		case OpISub:
			return mkIntBig(r.Sub(ba, bb))
		case OpIMul:
			return mkIntBig(r.Mul(ba, bb))
		case OpIDiv:
			if bb.Sign() != 0 {
				return mkIntBig(r.Div(ba, bb)) // Euclidean, matches SMT-LIB
			}
		case OpIMod:
			if bb.Sign() != 0 {
				return mkIntBig(r.Mod(ba, bb))
			}
		case OpILt:
			return mkBool(ba.Cmp(bb) < 0)
		case OpILe:
			return mkBool(ba.Cmp(bb) <= 0)
		}
	}
	if op == OpIMod && okb && bb.Sign() > 0 {
		if iv := intervalOf(a); iv.lo != nil && iv.hi != nil && iv.lo.Sign() >= 0 && iv.hi.Cmp(bb) < 0 {
			return a
		}
	}
	if op == OpILt || op == OpILe {
		// decide by intervals when possible
		ia, ib := intervalOf(a), intervalOf(b)
		if ia.hi != nil && ib.lo != nil {
			if c := ia.hi.Cmp(ib.lo); c < 0 || (c == 0 && op == OpILe) {
				return tTrue
			}
		}
		if ia.lo != nil && ib.hi != nil {
			if c := ia.lo.Cmp(ib.hi); c > 0 || (c == 0 && op == OpILt) {
				return tFalse
			}
		}
	}
	switch op {
	case OpILt, OpILe:
		return mk(op, BoolSort, a, b)
	case OpIAdd:
		if oka && ba.Sign() == 0 {
			return b
		}
		if okb && bb.Sign() == 0 {
			return a
		}
		if oka && !okb {
			a, b, ba, bb, oka, okb = b, a, bb, ba, okb, oka
		}
		// (x + c1) + c2  ->  x + (c1+c2) ; (x - c1) + c2 -> x + (c2-c1)
		if okb && (a.op == OpIAdd || a.op == OpISub) {
			if c1, ok := intConstBig(a.args[1]); ok {
				if a.op == OpIAdd {
					return mkI(OpIAdd, a.args[0], mkIntBig(new(big.Int).Add(c1, bb)))
				}
				return mkI(OpIAdd, a.args[0], mkIntBig(new(big.Int).Sub(bb, c1)))
			}
		}
		if okb && bb.Sign() < 0 {
			return mkI(OpISub, a, mkIntBig(new(big.Int).Neg(bb)))
		}
	case OpISub:
		if okb && bb.Sign() == 0 {
			return a
		}
		if a == b {
			return mkConst(IntSort, 0)
		}
		// (x + c1) - c2 -> x + (c1-c2) ; (x - c1) - c2 -> x - (c1+c2)
		if okb && (a.op == OpIAdd || a.op == OpISub) {
			if c1, ok := intConstBig(a.args[1]); ok {
				if a.op == OpIAdd {
					return mkI(OpIAdd, a.args[0], mkIntBig(new(big.Int).Sub(c1, bb)))
				}
				return mkI(OpISub, a.args[0], mkIntBig(new(big.Int).Add(c1, bb)))
			}
		}
		if okb && bb.Sign() < 0 {
			return mkI(OpIAdd, a, mkIntBig(new(big.Int).Neg(bb)))
		}
	case OpIMul:
		if oka && ba.IsInt64() && ba.Int64() == 1 {
			return b
		}
		if okb && bb.IsInt64() && bb.Int64() == 1 {
			return a
		}
		if !oka && !okb {
			panic(unsupported("LIA mode: symbolic * symbolic"))
		}
	case OpIDiv, OpIMod:
		if !okb {
			panic(unsupported("LIA mode: division by a symbolic value"))
		}
	}
	return mk(op, IntSort, a, b)
}

// ---- conservative intervals of Int terms (to elide redundant wraps) ----

type ival struct{ lo, hi *big.Int } // nil = unbounded

var ivalMemo = map[int]ival{}
var varRange = map[string]ival{} // set by nondetScalar in LIA mode

func bmin(a, b *big.Int) *big.Int {
	if a == nil || b == nil {
		return nil
	}
	if a.Cmp(b) < 0 {
		return a
	}
	return b
}
func bmax(a, b *big.Int) *big.Int {
	if a == nil || b == nil {
		return nil
	}
	if a.Cmp(b) > 0 {
		return a
	}
	return b
}

func intervalOf(t *Term) ival {
	if t.sort.W >= 0 {
		return ival{}
	}
	if b, ok := intConstBig(t); ok {
		return ival{b, b}
	}
	if r, ok := ivalMemo[t.id]; ok {
		return r
	}
	var r ival
	switch t.op {
	case OpVar:
		r = varRange[t.name]
	case OpIAdd:
		a, b := intervalOf(t.args[0]), intervalOf(t.args[1])
		if a.lo != nil && b.lo != nil {
			r.lo = new(big.Int).Add(a.lo, b.lo)
		}
		if a.hi != nil && b.hi != nil {
			r.hi = new(big.Int).Add(a.hi, b.hi)
		}
	case OpISub:
		a, b := intervalOf(t.args[0]), intervalOf(t.args[1])
		if a.lo != nil && b.hi != nil {
			r.lo = new(big.Int).Sub(a.lo, b.hi)
		}
		if a.hi != nil && b.lo != nil {
			r.hi = new(big.Int).Sub(a.hi, b.lo)
		}
	case OpIMul:
		a, b := intervalOf(t.args[0]), intervalOf(t.args[1])
		if a.lo != nil && a.hi != nil && b.lo != nil && b.hi != nil {
			ps := []*big.Int{new(big.Int).Mul(a.lo, b.lo), new(big.Int).Mul(a.lo, b.hi), new(big.Int).Mul(a.hi, b.lo), new(big.Int).Mul(a.hi, b.hi)}
			r.lo, r.hi = ps[0], ps[0]
			for _, p := range ps[1:] {
				r.lo, r.hi = bmin(r.lo, p), bmax(r.hi, p)
			}
		}
	case OpIDiv:
		a := intervalOf(t.args[0])
		if d, ok := intConstBig(t.args[1]); ok && d.Sign() > 0 && a.lo != nil && a.hi != nil {
			r.lo = new(big.Int).Div(a.lo, d) // Euclidean (floor for d>0)
			r.hi = new(big.Int).Div(a.hi, d)
		}
	case OpIMod:
		if d, ok := intConstBig(t.args[1]); ok && d.Sign() > 0 {
			a := intervalOf(t.args[0])
			if a.lo != nil && a.hi != nil && a.lo.Sign() >= 0 && a.hi.Cmp(d) < 0 {
				r = a
			} else {
				r.lo = big.NewInt(0)
				r.hi = new(big.Int).Sub(d, big.NewInt(1))
			}
		}
	case OpIte:
		a, b := intervalOf(t.args[1]), intervalOf(t.args[2])
		r.lo, r.hi = bmin(a.lo, b.lo), bmax(a.hi, b.hi)
	}
	ivalMemo[t.id] = r
	return r
}

// wrapI reduces t into the range of kind k.
func wrapI(t *Term, k types.BasicKind) *Term {
	w := kindWidth(k)
	if iv := intervalOf(t); iv.lo != nil && iv.hi != nil {
		lo, hi := liaRangeBig(k)
		if iv.lo.Cmp(lo) >= 0 && iv.hi.Cmp(hi) <= 0 {
			return t
		}
	}
	if b, ok := intConstBig(t); ok {
		m := pow2(w)
		r := new(big.Int).Mod(b, m)
		if kindSigned(k) && r.Cmp(pow2(w-1)) >= 0 {
			r.Sub(r, m)
		}
		return mkIntBig(r)
	}
	if kindSigned(k) {
		half := mkIntBig(pow2(w - 1))
		return mkI(OpISub, mkI(OpIMod, mkI(OpIAdd, t, half), mkIntBig(pow2(w))), half)
	}
	return mkI(OpIMod, t, mkIntBig(pow2(w)))
}

// truncDiv: Go's truncated division/remainder by a non-zero constant.
func truncDivRem(a, b *Term) (q, r *Term) {
	bb, _ := intConstBig(b)
	absB := mkIntBig(new(big.Int).Abs(bb))
	zero := mkConst(IntSort, 0)
	nonneg := mkI(OpILe, zero, a)
	na := mkI(OpISub, zero, a)
	qpos := mkI(OpIDiv, a, absB)                      // a >= 0
	qneg := mkI(OpISub, zero, mkI(OpIDiv, na, absB)) // a < 0
	q = mkIte(nonneg, qpos, qneg)
	if bb.Sign() < 0 {
		q = mkI(OpISub, zero, q)
	}
	r = mkI(OpISub, a, mkI(OpIMul, q, b))
	return
}

func liaBinopImpl(op token.Token, kx, ky types.BasicKind, x, y value) value {
	a, b := lift(x), lift(y)
	switch op {
	case token.ADD:
		return mkval2(wrapI(mkI(OpIAdd, a, b), kx), kx)
	case token.SUB:
		return mkval2(wrapI(mkI(OpISub, a, b), kx), kx)
	case token.MUL:
		return mkval2(wrapI(mkI(OpIMul, a, b), kx), kx)
	case token.QUO, token.REM:
		if bb, ok := intConstBig(b); !ok {
			panic(unsupported("LIA mode: division by a symbolic value"))
		} else if bb.Sign() == 0 {
			panic(runtimePanic("runtime error: integer divide by zero"))
		}
		q, r := truncDivRem(a, b)
		if op == token.QUO {
			return mkval2(wrapI(q, kx), kx)
		}
		return mkval2(r, kx)
	case token.EQL:
		return mkbool(mkEq(a, b))
	case token.NEQ:
		return mkbool(mkNot(mkEq(a, b)))
	case token.LSS:
		return mkbool(mkI(OpILt, a, b))
	case token.LEQ:
		return mkbool(mkI(OpILe, a, b))
	case token.GTR:
		return mkbool(mkI(OpILt, b, a))
	case token.GEQ:
		return mkbool(mkI(OpILe, b, a))
	case token.AND:
		// x & (2^k - 1)  ==  x mod 2^k  for non-negative x
		if bb, ok := intConstBig(b); ok && !kindSigned(kx) {
			m := new(big.Int).Add(bb, big.NewInt(1))
			if m.BitLen() > 0 && new(big.Int).And(m, bb).Sign() == 0 {
				return mkval2(mkI(OpIMod, a, mkIntBig(m)), kx)
			}
		}
	case token.OR, token.XOR:
		// bitwise op with a non-negative constant on a non-negative operand:
		// decompose over the set bits of the constant.
		ca, cb := a, b
		if _, ok := intConstBig(ca); ok {
			ca, cb = cb, ca
		}
		if bb, ok := intConstBig(cb); ok && bb.Sign() >= 0 && bb.BitLen() <= 16 {
			if iv := intervalOf(ca); iv.lo != nil && iv.lo.Sign() >= 0 {
				res := ca
				for k := 0; k < bb.BitLen(); k++ {
					if bb.Bit(k) == 0 {
						continue
					}
					p2 := mkIntBig(pow2(k))
					bit := mkI(OpIMod, mkI(OpIDiv, ca, p2), mkConst(IntSort, 2))
					isZero := mkEq(bit, mkConst(IntSort, 0))
					if op == token.OR {
						res = mkI(OpIAdd, res, mkIte(isZero, p2, mkConst(IntSort, 0)))
					} else {
						res = mkI(OpIAdd, res, mkIte(isZero, p2, mkI(OpISub, mkConst(IntSort, 0), p2)))
					}
				}
				return mkval2(wrapI(res, kx), kx)
			}
		}
	case token.SHL:
		if bb, ok := intConstBig(b); ok && bb.IsInt64() && bb.Int64() < 64 {
			return mkval2(wrapI(mkI(OpIMul, a, mkIntBig(pow2(int(bb.Int64())))), kx), kx)
		}
	case token.SHR:
		if bb, ok := intConstBig(b); ok && bb.IsInt64() && bb.Int64() < 64 {
			// floor division = arithmetic shift for both signs
			return mkval2(mkI(OpIDiv, a, mkIntBig(pow2(int(bb.Int64())))), kx)
		}
	}
	panic(unsupported(fmt.Sprintf("LIA mode: operator %s on symbolic operands", op)))
}

func mkval2(t *Term, k types.BasicKind) value {
	if b, ok := intConstBig(t); ok {
		if kindSigned(k) {
			return fromBits(k, uint64(b.Int64()))
		}
		return fromBits(k, b.Uint64())
	}
	return sym{t, k}
}

func liaUnopImpl(op token.Token, s sym) value {
	switch op {
	case token.SUB:
		return mkval2(wrapI(mkI(OpISub, mkConst(IntSort, 0), s.t), s.kind), s.kind)
	}
	panic(unsupported("LIA mode: unary " + op.String()))
}

func liaConvImpl(x sym, dst types.BasicKind) value {
	ws, wd := kindWidth(x.kind), kindWidth(dst)
	if kindSigned(x.kind) == kindSigned(dst) && wd >= ws {
		return sym{x.t, dst}
	}
	if !kindSigned(x.kind) && kindSigned(dst) && wd > ws {
		return sym{x.t, dst}
	}
	return mkval2(wrapI(x.t, dst), dst)
}

// liaFormatInt: decimal digits of a symbolic Int.
func liaFormatInt(s sym) value {
	t := s.t
	zero := mkConst(IntSort, 0)
	neg := false
	if kindSigned(s.kind) {
		if X.Branch(mkI(OpILt, t, zero)) {
			neg = true
			t = mkI(OpISub, zero, t)
		}
	}
	maxDigits := 20
	nd := maxDigits
	p := big.NewInt(1)
	for d := 1; d < maxDigits; d++ {
		p = new(big.Int).Mul(p, big.NewInt(10))
		if X.Branch(mkI(OpILt, t, mkIntBig(p))) {
			nd = d
			break
		}
	}
	var out []value
	if neg {
		out = append(out, uint8('-'))
	}
	for i := nd - 1; i >= 0; i-- {
		p := new(big.Int).Exp(big.NewInt(10), big.NewInt(int64(i)), nil)
		d := mkI(OpIMod, mkI(OpIDiv, t, mkIntBig(p)), mkConst(IntSort, 10))
		out = append(out, mkval2(mkI(OpIAdd, d, mkConst(IntSort, '0')), types.Uint8))
	}
	return mkstr(out)
}


// refineRange narrows the per-path range of a variable from a path-condition
// conjunct of the form  var < c, var <= c, c < var, c <= var  (or a negation).
func refineRange(t *Term) {
	neg := false
	if t.op == OpNot {
		neg = true
		t = t.args[0]
	}
	if t.op == OpAnd && !neg {
		for _, a := range t.args {
			refineRange(a)
		}
		return
	}
	if t.op != OpILt && t.op != OpILe {
		return
	}
	a, b := t.args[0], t.args[1]
	strict := t.op == OpILt
	if neg { // not(a < b) == b <= a ; not(a <= b) == b < a
		a, b = b, a
		strict = !strict
	}
	one := big.NewInt(1)
	if a.op == OpVar {
		if c, ok := intConstBig(b); ok { // a < c  or a <= c
			hi := new(big.Int).Set(c)
			if strict {
				hi.Sub(hi, one)
			}
			r := varRange[a.name]
			if r.hi == nil || hi.Cmp(r.hi) < 0 {
				r.hi = hi
				varRange[a.name] = r
				ivalMemo = map[int]ival{}
			}
		}
	}
	if b.op == OpVar {
		if c, ok := intConstBig(a); ok { // c < b or c <= b
			lo := new(big.Int).Set(c)
			if strict {
				lo.Add(lo, one)
			}
			r := varRange[b.name]
			if r.lo == nil || lo.Cmp(r.lo) > 0 {
				r.lo = lo
				varRange[b.name] = r
				ivalMemo = map[int]ival{}
			}
		}
	}
}

func resetLIAPath() {
	varRange = map[string]ival{}
	ivalMemo = map[int]ival{}
}
