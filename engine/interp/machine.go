package interp

import (
	"fmt"
	"go/token"
	"go/types"
	"runtime"
	"strings"

	"golang.org/x/tools/go/ssa"
)

// liaMode: integers are mathematical Ints with explicit wrap (see lia.go).
var liaMode bool

// Machine wraps an interpreter for one SSA program.
type Machine struct {
	i *interpreter
}

// packages whose init functions are interpreted.  Everything else is left
// zero-initialised and reading one of its globals aborts the path as
// "unsupported" unless a lazy constructor exists (see lazyGlobals).
var initWhitelist = map[string]bool{
	"errors": false, "io": true, "strconv": true, "unicode/utf8": true, "unicode": false,
	"strings": true, "bytes": true, "encoding/binary": true, "encoding/base64": true,
	"context": true, "sort": true, "net/textproto": true, "math": true, "math/bits": true,
	"bufio": true, "io/ioutil": false, "internal/bytealg": false, "unicode/utf16": true,
	"slices": true, "maps": true, "cmp": true, "iter": true, "internal/stringslite": true,
	"internal/itoa": true, "net/url": true, "path": true,
	"vendor/golang.org/x/net/http/httpguts": true, "net/http/internal/ascii": true, "mime": false,
}

func NewMachine(prog *ssa.Program, sizes types.Sizes, extraInit []string) *Machine {
	i := &interpreter{
		prog:    prog,
		globals: make(map[*ssa.Global]*value),
		sizes:   sizes,
		pkgInit: make(map[*ssa.Package]int),
	}
	allowed := map[string]bool{}
	for k, v := range initWhitelist {
		allowed[k] = v
	}
	for _, p := range extraInit {
		allowed[p] = true
	}
	i.initAllowed = func(p string) bool { return allowed[p] }
	runtimePkg := i.prog.ImportedPackage("runtime")
	if runtimePkg == nil {
		panic("ssa.Program doesn't include runtime package")
	}
	i.runtimeErrorString = runtimePkg.Type("errorString").Object().Type()
	return &Machine{i: i}
}

// Reset discards all global state so that the next run starts afresh.
func (m *Machine) Reset() {
	m.i.globals = make(map[*ssa.Global]*value)
	m.i.pkgInit = make(map[*ssa.Package]int)
}

func (i *interpreter) beginInit(pkg *ssa.Package) bool {
	switch i.pkgInit[pkg] {
	case 1, 2, 3:
		return false
	}
	if !i.initAllowed(pkg.Pkg.Path()) {
		i.pkgInit[pkg] = 3
		return false
	}
	i.pkgInit[pkg] = 1
	return true
}

func (i *interpreter) endInit(pkg *ssa.Package) {
	i.pkgInit[pkg] = 2
}

// global returns the address of global g, running its package's
// initialiser first when allowed.
func (i *interpreter) global(g *ssa.Global) *value {
	if r, ok := i.globals[g]; ok {
		return r
	}
	// package initialisation happens before main in Go: its accesses are
	// not part of any race.
	if RaceOn && sched != nil && sched.race != nil {
		sched.race.off++
		defer func() { sched.race.off-- }()
	}
	pkg := g.Pkg
	st := i.pkgInit[pkg]
	if st == 0 && pkg != nil {
		if initFn := pkg.Func("init"); initFn != nil {
			call(i, nil, token.NoPos, initFn, nil)
		}
		st = i.pkgInit[pkg]
		if r, ok := i.globals[g]; ok {
			return r
		}
	}
	cell := zero(mustDeref(g.Type()))
	p := &cell
	i.globals[g] = p
	if st == 3 {
		key := pkg.Pkg.Path() + "." + g.Name()
		if mk, ok := lazyGlobals[key]; ok {
			*p = mk(i, g)
		} else if !zeroOKGlobals[key] && !zeroOKPackages[pkg.Pkg.Path()] && !strings.HasSuffix(g.Name(), "$guard") {
			// run just the slice of the package initialiser that computes g
			if err := i.sliceInitGlobal(g); err != "" {
				delete(i.globals, g)
				panic(unsupported("global " + key + " of a package whose initialiser is not interpreted: " + err))
			}
		}
	}
	return p
}

// rootGlobal returns the global an address expression is rooted at.
func rootGlobal(v ssa.Value) *ssa.Global {
	for {
		switch x := v.(type) {
		case *ssa.Global:
			return x
		case *ssa.FieldAddr:
			v = x.X
		case *ssa.IndexAddr:
			v = x.X
		default:
			return nil
		}
	}
}

// sliceInitGlobal evaluates the part of g's package initialiser that
// computes g: the stores into g and the instructions they depend on.  A
// global without any store keeps its zero value.  Returns "" on success.
func (i *interpreter) sliceInitGlobal(g *ssa.Global) string {
	initFn := g.Pkg.Func("init")
	if initFn == nil || initFn.Blocks == nil {
		return ""
	}
	need := map[ssa.Instruction]bool{}
	var work []ssa.Value
	found := false
	for _, b := range initFn.Blocks {
		for _, in := range b.Instrs {
			if st, ok := in.(*ssa.Store); ok && rootGlobal(st.Addr) == g {
				need[st] = true
				work = append(work, st.Addr, st.Val)
				found = true
			}
			// map-typed globals initialised by MapUpdate on a loaded map
			if mu, ok := in.(*ssa.MapUpdate); ok {
				if ld, ok := mu.Map.(*ssa.UnOp); ok && rootGlobal(ld.X) == g {
					need[mu] = true
					work = append(work, mu.Map, mu.Key, mu.Value)
				}
			}
		}
	}
	if !found {
		return ""
	}
	for len(work) > 0 {
		v := work[len(work)-1]
		work = work[:len(work)-1]
		in, ok := v.(ssa.Instruction)
		if !ok || need[in] {
			continue
		}
		if in.Parent() != initFn {
			continue
		}
		switch x := in.(type) {
		case *ssa.Phi, *ssa.Select, *ssa.Go, *ssa.Defer:
			return fmt.Sprintf("initialiser uses %T", x)
		}
		need[in] = true
		for _, op := range in.Operands(nil) {
			if *op != nil {
				work = append(work, *op)
			}
		}
		// an Alloc/MakeMap/MakeSlice is filled by stores through it
		if val, ok := in.(ssa.Value); ok {
			if refs := val.Referrers(); refs != nil {
				switch in.(type) {
				case *ssa.Alloc, *ssa.MakeMap, *ssa.MakeSlice, *ssa.FieldAddr, *ssa.IndexAddr, *ssa.Slice:
					for _, r := range *refs {
						switch r := r.(type) {
						case *ssa.Store:
							if r.Addr == val && !need[r] {
								need[r] = true
								work = append(work, r.Val)
							}
						case *ssa.MapUpdate:
							if r.Map == val && !need[r] {
								need[r] = true
								work = append(work, r.Key, r.Value)
							}
						case *ssa.FieldAddr, *ssa.IndexAddr:
							work = append(work, r.(ssa.Value))
						}
					}
				}
			}
		}
	}
	fr := &frame{i: i, fn: initFn, env: make(map[ssa.Value]value)}
	fr.locals = make([]value, len(initFn.Locals))
	for k, l := range initFn.Locals {
		fr.locals[k] = zero(mustDeref(l.Type()))
		fr.env[l] = &fr.locals[k]
	}
	n := 0
	for _, b := range initFn.Blocks {
		fr.block = b
		for _, in := range b.Instrs {
			if !need[in] {
				continue
			}
			n++
			if n > 20000 {
				return "initialiser slice too large"
			}
			visitInstr(fr, in)
		}
	}
	return ""
}

// classifyPanic is applied to every panic recovered while unwinding target
// frames.  Engine aborts are re-raised; host-level panics that are not
// target program panics (interpreter bugs/limitations) become
// "unsupported" aborts, so they can never be reported as target panics.
func classifyPanic(r any) any {
	switch r := r.(type) {
	case pathAbort, killedPanic:
		panic(r)
	case deadlockPanic:
		panic(r) // fatal in Go: not recoverable by the target
	case targetPanic, runtimePanic:
		return r
	case nil:
		return r
	case runtime.Error:
		panic(unsupported("interpreter: " + r.Error() + " @ " + stackSummary()))
	default:
		panic(unsupported(fmt.Sprintf("interpreter: %v @ %s", r, stackSummary())))
	}
}

func isEnginePanic(r any) bool {
	switch r := r.(type) {
	case pathAbort:
		return true
	case *runtime.TypeAssertionError:
		// an interpreter limitation (e.g. symbolic value where a concrete
		// one was expected), never a target program panic: target type
		// assertions panic with a string.
		panic(unsupported("interpreter: " + r.Error() + "\n" + stackSummary()))
	case killedPanic:
		return true
	}
	return false
}

func stackSummary() string {
	buf := make([]byte, 1<<14)
	n := runtime.Stack(buf, false)
	lines := strings.Split(string(buf[:n]), "\n")
	var out []string
	for _, l := range lines {
		if strings.Contains(l, "/interp/") && !strings.Contains(l, "machine.go") && !strings.Contains(l, "interp.go:5") {
			out = append(out, strings.TrimSpace(l))
			if len(out) >= 6 {
				break
			}
		}
	}
	return strings.Join(out, " | ")
}

// indexIn checks 0 <= idx < n (forking if symbolic) and returns the concrete index.
func indexIn(idx value, n int) int {
	if s, ok := idx.(sym); ok {
		var inRange *Term
		if liaMode {
			inRange = mkAnd(mk(OpILe, BoolSort, mkConst(IntSort, 0), s.t), mk(OpILt, BoolSort, s.t, mkConst(IntSort, uint64(n))))
		} else if kindSigned(s.kind) {
			inRange = mkAnd(mkBvCmp(OpBvSle, mkConst(s.t.sort, 0), s.t), mkBvCmp(OpBvSlt, s.t, mkConst(s.t.sort, uint64(n))))
		} else {
			inRange = mkBvCmp(OpBvUlt, s.t, mkConst(s.t.sort, uint64(n)))
		}
		if !X.Branch(inRange) {
			panic(runtimePanic(fmt.Sprintf("runtime error: index out of range [symbolic] with length %d", n)))
		}
		return int(concreteInt64(idx))
	}
	i := asInt64(idx)
	if i < 0 || i >= int64(n) {
		panic(runtimePanic(fmt.Sprintf("runtime error: index out of range [%d] with length %d", i, n)))
	}
	return int(i)
}

func (e *Explorer) enter(fn *ssa.Function) {
	e.curFn = fn
	name := fn.String()
	if _, ok := e.FnsEncoded[name]; !ok {
		n := 0
		for _, b := range fn.Blocks {
			n += len(b.Instrs)
		}
		e.FnsEncoded[name] = n
	}
}

// RunHarness explores all paths of fn (a niladic function).
func (m *Machine) RunHarness(fn *ssa.Function, ex *Explorer) {
	X = ex
	run := func() (panicked bool, pval string) {
		m.Reset()
		resetScheduler()
		defer func() {
			if r := recover(); r != nil {
				if isEnginePanic(r) {
					killAll()
					panic(r)
				}
				panicked = true
				pval = panicString(r)
				killAll()
			}
		}()
		runMain(m.i, fn)
		ex.finishPath()
		killAll()
		return false, ""
	}
	ex.Explore(run)
}

func panicString(r any) string {
	switch p := r.(type) {
	case targetPanic:
		return "target panic: " + describePanicValue(p.v)
	case runtime.Error:
		return p.Error()
	case string:
		return p
	case error:
		return p.Error()
	}
	return fmt.Sprintf("%T %v", r, r)
}

func describePanicValue(v value) string {
	if it, ok := v.(iface); ok {
		if it.t == nil {
			return "nil"
		}
		return fmt.Sprintf("(%s) %s", it.t, toString(it.v))
	}
	return toString(v)
}
