package interp

// Insertion-ordered association-list maps.  Deterministic iteration order
// (needed for path replay) and symbolic-aware key comparison: comparing a
// key with symbolic bytes against stored keys forks the path.

import "go/types"

type omap struct {
	keyT types.Type
	keys []value
	vals []value
}

func makeMap(kt types.Type, reserve int64) value {
	return &omap{keyT: kt}
}

func (m *omap) find(k value) int {
	if m == nil {
		return -1
	}
	// fast path: concrete string keys
	if ks, ok := k.(string); ok {
		symKeys := false
		for i, x := range m.keys {
			if xs, ok := x.(string); ok {
				if xs == ks {
					return i
				}
			} else {
				symKeys = true
			}
		}
		if !symKeys {
			return -1
		}
	}
	for i, x := range m.keys {
		if truth(mkbool(equalsT(m.keyT, x, k))) {
			return i
		}
	}
	return -1
}

func (m *omap) lookup(k value) (value, bool) {
	i := m.find(k)
	if i < 0 {
		return nil, false
	}
	return m.vals[i], true
}

func (m *omap) insert(k, v value) {
	if m == nil {
		panic(runtimePanic("assignment to entry in nil map"))
	}
	i := m.find(k)
	if i >= 0 {
		m.vals[i] = v
		return
	}
	m.keys = append(m.keys, k)
	m.vals = append(m.vals, v)
}

func (m *omap) delete(k value) {
	i := m.find(k)
	if i < 0 {
		return
	}
	m.keys = append(m.keys[:i:i], m.keys[i+1:]...)
	m.vals = append(m.vals[:i:i], m.vals[i+1:]...)
}

func (m *omap) len() int {
	if m == nil {
		return 0
	}
	return len(m.keys)
}

type omapIter struct {
	keys, vals []value
	i          int
}

func (it *omapIter) next() tuple {
	if it.i >= len(it.keys) {
		return []value{false, nil, nil}
	}
	k, v := it.keys[it.i], it.vals[it.i]
	it.i++
	return []value{true, k, v}
}

func (m *omap) iter() iter {
	if m == nil {
		return &omapIter{}
	}
	order := X.mapOrder(len(m.keys))
	it := &omapIter{keys: make([]value, len(m.keys)), vals: make([]value, len(m.keys))}
	for i, j := range order {
		it.keys[i] = m.keys[j]
		it.vals[i] = m.vals[j]
	}
	return it
}
