package interp

// Happens-before monitor (harness option race=on).
//
// Every target goroutine carries a vector clock.  Synchronisation operations
// the scheduler and the sync/atomic intrinsics already model - channel send,
// receive and close, select, Mutex/RWMutex, Once, WaitGroup, atomics,
// sync.Pool Put->Get, go statements - join and advance the clocks the way the
// Go memory model orders them (over-approximating where the model is coarser:
// a channel is one synchronisation object, so every earlier send orders before
// every later receive; more order means fewer reports, never more).  Every
// load, store, map operation, append and copy executed by library code (a frame
// whose innermost non-library-dependency function is in /repo and not in a
// harness file) is checked against the last write and the reads since it
// (FastTrack-style epochs): two conflicting accesses on the explored schedule
// that are not ordered are recorded as a violation candidate, which the check
// then replays natively under `go test -race`.

import (
	"fmt"
	"go/token"
	"path/filepath"
	"strings"

	"golang.org/x/tools/go/ssa"
)

// RaceOn enables the monitor for the current run.
var RaceOn bool

type vclock []uint32

func (v vclock) at(i int) uint32 {
	if i < len(v) {
		return v[i]
	}
	return 0
}

func (v *vclock) join(o vclock) {
	for len(*v) < len(o) {
		*v = append(*v, 0)
	}
	for i, c := range o {
		if c > (*v)[i] {
			(*v)[i] = c
		}
	}
}

func (v vclock) clone() vclock { return append(vclock(nil), v...) }

type raceAccess struct {
	g   int
	c   uint32
	fn  *ssa.Function
	pos token.Pos
}

type shadowCell struct {
	hasW bool
	w    raceAccess
	r    []raceAccess
}

type raceState struct {
	shadow   map[any]*shadowCell
	sync     map[any]*vclock
	off      int // >0: accesses are not recorded (lazy package initialisation)
	reported map[string]bool
}

func newRaceState() *raceState {
	return &raceState{shadow: map[any]*shadowCell{}, sync: map[any]*vclock{}, reported: map[string]bool{}}
}

// frame origins
const (
	orgHarness = 'h'
	orgLibrary = 'l'
)

var originCache = map[*ssa.Function]byte{}

// originOf classifies fn: 'l' library (/repo, not a harness file), 'h' harness,
// 0 = dependency (standard library, modules): inherits from its caller.
func originOf(fn *ssa.Function) byte {
	if o, ok := originCache[fn]; ok {
		return o
	}
	f := fn
	for f.Parent() != nil {
		f = f.Parent()
	}
	if o := f.Origin(); o != nil {
		f = o
	}
	var o byte
	if f.Pkg != nil && f.Pkg.Pkg != nil && isTargetModule(f.Pkg.Pkg.Path()) {
		o = orgLibrary
		pos := f.Pos()
		if pos == token.NoPos && fn.Pos() != token.NoPos {
			pos = fn.Pos()
		}
		if pos != token.NoPos {
			name := filepath.Base(fn.Prog.Fset.Position(pos).Filename)
			if strings.HasPrefix(name, "zz_verif_") {
				o = orgHarness
			}
		} else if f.Synthetic != "" {
			o = 0 // wrappers, thunks, bound methods: inherit
		}
	}
	originCache[fn] = o
	return o
}

// TargetModulePrefix is the import path prefix of the code under test.
var TargetModulePrefix = "github.com/bufbuild/connect-go"

func isTargetModule(path string) bool {
	return path == TargetModulePrefix || strings.HasPrefix(path, TargetModulePrefix+"/")
}

// RaceAll (GOSMT_RACE_ALL=1, self-tests) treats harness code as library code.
var RaceAll bool

func frameOrigin(caller *frame, fn *ssa.Function) byte {
	if RaceAll {
		return orgLibrary
	}
	if o := originOf(fn); o != 0 {
		return o
	}
	if caller != nil {
		return caller.origin
	}
	return orgHarness
}

// ---- clocks ----------------------------------------------------------------------

func (g *gor) tick() {
	for len(g.vc) <= g.id {
		g.vc = append(g.vc, 0)
	}
	g.vc[g.id]++
}

func raceInitMain(g *gor) {
	g.vc = vclock{1}
}

// raceFork gives the child the parent's knowledge.
func raceFork(parent, child *gor) {
	if !RaceOn {
		return
	}
	child.vc = parent.vc.clone()
	child.tick()
	parent.tick()
}

// raceRelease publishes the current goroutine's clock on the synchronisation
// object key; raceAcquire imports what was published there.
func raceRelease(key any) {
	if !RaceOn || sched == nil || sched.race == nil {
		return
	}
	g := sched.cur
	vc := sched.race.sync[key]
	if vc == nil {
		vc = &vclock{}
		sched.race.sync[key] = vc
	}
	vc.join(g.vc)
	g.tick()
	RaceStats.Syncs++
}

func raceAcquire(key any) {
	if !RaceOn || sched == nil || sched.race == nil {
		return
	}
	if vc := sched.race.sync[key]; vc != nil {
		sched.cur.vc.join(*vc)
	}
}

type chanRecvSide struct{ c *channel }

func raceChanSendBefore(c *channel)  { raceRelease(c) }
func raceChanSendAfter(c *channel)   { raceAcquire(chanRecvSide{c}) }
func raceChanRecvBefore(c *channel)  { raceRelease(chanRecvSide{c}) }
func raceChanRecvAfter(c *channel)   { raceAcquire(c) }
func raceChanCloseBefore(c *channel) { raceRelease(c) }

type poolItemKey struct{ p any }

// ---- accesses ----------------------------------------------------------------------

// RaceStats counts monitored accesses and synchronisation operations (evidence).
var RaceStats struct{ Accesses, Skipped, Syncs int64 }

func raceCur() (*gor, *frame, bool) {
	if !RaceOn || sched == nil || sched.race == nil || sched.race.off > 0 {
		return nil, nil, false
	}
	g := sched.cur
	fr := g.fr
	if fr == nil || fr.origin != orgLibrary {
		RaceStats.Skipped++
		return nil, nil, false
	}
	RaceStats.Accesses++
	return g, fr, true
}

func (g *gor) ordered(a raceAccess) bool {
	return a.g == g.id || a.c <= g.vc.at(a.g)
}

func raceRead(key any) {
	g, fr, ok := raceCur()
	if !ok {
		return
	}
	rs := sched.race
	sc := rs.shadow[key]
	if sc == nil {
		sc = &shadowCell{}
		rs.shadow[key] = sc
	}
	cur := raceAccess{g: g.id, c: g.vc.at(g.id), fn: fr.fn, pos: g.pos}
	if sc.hasW && !g.ordered(sc.w) {
		raceReport(sc.w, true, cur, false)
	}
	for i := range sc.r {
		if sc.r[i].g == g.id {
			sc.r[i] = cur
			return
		}
	}
	sc.r = append(sc.r, cur)
}

func raceWrite(key any) {
	g, fr, ok := raceCur()
	if !ok {
		return
	}
	rs := sched.race
	sc := rs.shadow[key]
	if sc == nil {
		sc = &shadowCell{}
		rs.shadow[key] = sc
	}
	cur := raceAccess{g: g.id, c: g.vc.at(g.id), fn: fr.fn, pos: g.pos}
	if sc.hasW && !g.ordered(sc.w) {
		raceReport(sc.w, true, cur, true)
	}
	for _, r := range sc.r {
		if !g.ordered(r) {
			raceReport(r, false, cur, true)
		}
	}
	sc.hasW = true
	sc.w = cur
	sc.r = sc.r[:0]
}

func raceReadElems(s []value, n int) {
	if !RaceOn {
		return
	}
	for i := 0; i < n && i < len(s); i++ {
		raceRead(&s[i])
	}
}

func raceWriteElems(s []value, n int) {
	if !RaceOn {
		return
	}
	for i := 0; i < n && i < len(s); i++ {
		raceWrite(&s[i])
	}
}

func raceSite(a raceAccess) string {
	name := a.fn.String()
	if a.pos != token.NoPos {
		p := a.fn.Prog.Fset.Position(a.pos)
		return fmt.Sprintf("%s %s:%d", name, filepath.Base(p.Filename), p.Line)
	}
	return name
}

func raceKind(w bool) string {
	if w {
		return "write"
	}
	return "read"
}

func raceReport(prev raceAccess, prevW bool, cur raceAccess, curW bool) {
	a := raceKind(prevW) + " in " + raceSite(prev)
	b := raceKind(curW) + " in " + raceSite(cur)
	if b < a {
		a, b = b, a
	}
	msg := "data race: unsynchronised " + a + " and " + b
	if sched.race.reported[msg] {
		return
	}
	sched.race.reported[msg] = true
	X.violation(msg, nil)
}

// raceAppend records the accesses of append(s, elems...): the elements are
// read; s is written in place when its capacity suffices, else read (copied).
func raceAppend(s, elems []value, n int) {
	if !RaceOn {
		return
	}
	if elems != nil {
		raceReadElems(elems, n)
	}
	if n == 0 {
		return
	}
	if len(s)+n <= cap(s) {
		raceWriteElems(s[len(s):len(s)+n], n)
	} else {
		raceReadElems(s, len(s))
	}
}
