package interp

// Deterministic cooperative scheduler for target goroutines.
//
// Every target goroutine runs on its own host goroutine, but exactly one is
// active at any time (baton passing through gor.wake).  A goroutine runs until
// it blocks (channel operation, mutex, select) or finishes; then the next
// runnable goroutine is picked: the lowest id by default, or - when
// Explorer.SchedChoice is set - by a Choice decision, so that interleavings at
// blocking points and explicit yield points become part of the explored path
// space.

import (
	"fmt"
	"go/token"
	"go/types"

	"golang.org/x/tools/go/ssa"
)

type gstate int

const (
	gRunnable gstate = iota
	gBlocked
	gDone
)

type gor struct {
	id        int
	s         *scheduler
	state     gstate
	wake      chan struct{}
	blockedOn string
	fnName    string
	vc        vclock          // happens-before clock (race.go)
	fr        *frame          // frame of the instruction being executed
	pos       token.Pos       // position of that instruction
}

type killedPanic struct{}

type scheduler struct {
	gs      []*gor
	cur     *gor
	killed  bool
	crash   any  // uncaught panic / engine abort raised on a helper goroutine
	stuck   bool // a helper found nothing runnable and woke main
	preempt int  // voluntary preemptions taken on this path
	race    *raceState
}

var sched *scheduler

func resetScheduler() {
	s := &scheduler{}
	g := &gor{id: 0, s: s, wake: make(chan struct{}, 1), fnName: "main"}
	s.gs = []*gor{g}
	s.cur = g
	if RaceOn {
		s.race = newRaceState()
		raceInitMain(g)
	}
	sched = s
}

// runMain runs fn on the calling host goroutine as target goroutine 0.
func runMain(i *interpreter, fn *ssa.Function) {
	call(i, nil, token.NoPos, fn, nil)
	quiesce()
	sched.gs[0].state = gDone
}

// quiesce lets all other runnable goroutines run until none is runnable.
// Must be called from goroutine 0.
func quiesce() {
	me := sched.cur
	if me.id != 0 {
		panic(unsupported("quiesce called off the main goroutine"))
	}
	for {
		next := pickRunnable(me)
		if next == nil {
			return
		}
		me.state = gBlocked
		me.blockedOn = "quiesce"
		switchTo(me, next)
		me.state = gRunnable
		me.s.stuck = false
	}
}

// liveGoroutines returns the number of helper goroutines that have not finished.
func liveGoroutines() int {
	n := 0
	for _, g := range sched.gs[1:] {
		if g.state != gDone {
			n++
		}
	}
	return n
}

func pickRunnable(except *gor) *gor {
	var cands []*gor
	for _, g := range except.s.gs {
		if g != except && g.state == gRunnable {
			cands = append(cands, g)
		}
	}
	if len(cands) == 0 {
		return nil
	}
	// delay-bounded exploration: deviating from the default (lowest id) costs
	// one unit of the path's budget, like a preemption.
	if X.SchedChoice && len(cands) > 1 && except.s.preempt < X.MaxPreempt {
		k := X.Choice(len(cands))
		if k != 0 {
			except.s.preempt++
		}
		return cands[k]
	}
	return cands[0]
}

// switchTo hands the baton from me to next and waits to be woken again.
func switchTo(me, next *gor) {
	s := me.s
	s.cur = next
	next.wake <- struct{}{}
	<-me.wake
	if s.killed && me.id != 0 {
		panic(killedPanic{})
	}
	s.cur = me
	if me.id == 0 && s.crash != nil {
		c := s.crash
		s.crash = nil
		panic(c)
	}
}

// block parks the current goroutine until another goroutine makes it runnable.
func block(reason string) {
	me := sched.cur
	s := me.s
	me.state = gBlocked
	me.blockedOn = reason
	for me.state != gRunnable {
		next := pickRunnable(me)
		switch {
		case next != nil:
			switchTo(me, next)
		case me.id == 0:
			panic(deadlockPanic(describeBlocked(s)))
		default:
			// nothing can run: tell main (which is parked in switchTo).
			s.stuck = true
			switchTo(me, s.gs[0])
		}
		if me.id == 0 && s.stuck && me.state != gRunnable {
			s.stuck = false
			panic(deadlockPanic(describeBlocked(s)))
		}
	}
}

func describeBlocked(s *scheduler) string {
	d := ""
	for _, g := range s.gs {
		if g.state == gBlocked {
			d += fmt.Sprintf("[g%d %s: %s] ", g.id, g.fnName, g.blockedOn)
		}
	}
	return d
}

// yield is a voluntary preemption point (only when exploring schedules).
func yield() {
	if X == nil || !X.SchedChoice || X.MaxPreempt <= sched.preempt {
		return
	}
	me := sched.cur
	var cands []*gor
	for _, g := range me.s.gs {
		if g != me && g.state == gRunnable {
			cands = append(cands, g)
		}
	}
	if len(cands) == 0 {
		return
	}
	k := X.Choice(len(cands) + 1)
	if k == 0 {
		return
	}
	me.s.preempt++
	switchTo(me, cands[k-1])
}

func makeRunnable(g *gor) {
	if g.state == gBlocked {
		g.state = gRunnable
	}
}

func spawn(i *interpreter, pos token.Pos, fn value, args []value) {
	s := sched
	g := &gor{id: len(s.gs), s: s, wake: make(chan struct{}, 1), fnName: fnNameOf(fn)}
	s.gs = append(s.gs, g)
	raceFork(s.cur, g)
	if len(s.gs) > 64 {
		panic(pathAbort{abortBound, "more than 64 goroutines on one path"})
	}
	go func() {
		<-g.wake
		if s.killed {
			return
		}
		s.cur = g
		defer func() {
			r := recover()
			if _, ok := r.(killedPanic); ok {
				return
			}
			if s.killed {
				return
			}
			g.state = gDone
			var next *gor
			if r != nil {
				s.crash = r
				next = s.gs[0]
			} else if next = pickRunnableNoChoice(g); next == nil {
				s.stuck = true
				next = s.gs[0]
			}
			s.cur = next
			next.wake <- struct{}{}
		}()
		call(i, nil, pos, fn, args)
	}()
	yield()
}

func pickRunnableNoChoice(except *gor) (g *gor) {
	defer func() {
		// an engine abort raised by a scheduling Choice while a goroutine
		// finishes is forwarded to main instead of crashing the process.
		if r := recover(); r != nil {
			except.s.crash = r
			g = except.s.gs[0]
		}
	}()
	return pickRunnable(except)
}

func fnNameOf(fn value) string {
	switch f := fn.(type) {
	case *ssa.Function:
		return f.String()
	case *closure:
		return f.Fn.String()
	}
	return fmt.Sprintf("%T", fn)
}

// killAll terminates all helper goroutines of the current path.
func killAll() {
	s := sched
	if s == nil {
		return
	}
	s.killed = true
	for _, g := range s.gs[1:] {
		if g.state != gDone {
			g.state = gDone
			select {
			case g.wake <- struct{}{}:
			default:
			}
		}
	}
}

type deadlockPanic string

func (d deadlockPanic) Error() string { return "deadlock: all goroutines are blocked: " + string(d) }

// ---- channels ----------------------------------------------------------------

type waiter struct {
	g    *gor
	val  value // send: value offered; recv: value received
	ok   bool  // recv: false if woken by close
	done bool
	sel  *selState
	idx  int
}

type selState struct {
	done   bool
	chosen int
	val    value
	ok     bool
}

type channel struct {
	cap    int
	buf    []value
	closed bool
	recvq  []*waiter
	sendq  []*waiter
}

func newChannel(c int) *channel { return &channel{cap: c} }

func (w *waiter) live() bool {
	if w.done {
		return false
	}
	if w.sel != nil && w.sel.done {
		return false
	}
	return true
}

func popLive(q *[]*waiter) *waiter {
	for len(*q) > 0 {
		w := (*q)[0]
		*q = (*q)[1:]
		if w.live() {
			return w
		}
	}
	return nil
}

func hasLive(q []*waiter) bool {
	for _, w := range q {
		if w.live() {
			return true
		}
	}
	return false
}

func (w *waiter) complete(val value, ok bool) {
	w.done = true
	w.val = val
	w.ok = ok
	if w.sel != nil {
		w.sel.done = true
		w.sel.chosen = w.idx
		w.sel.val = val
		w.sel.ok = ok
	}
	makeRunnable(w.g)
}

// trySend attempts a non-blocking send; reports whether it happened.
func trySend(c *channel, v value) bool {
	if c.closed {
		panic(targetPanicString("send on closed channel"))
	}
	if r := popLive(&c.recvq); r != nil {
		r.complete(v, true)
		return true
	}
	if len(c.buf) < c.cap {
		c.buf = append(c.buf, v)
		return true
	}
	return false
}

// tryRecv attempts a non-blocking receive.
func tryRecv(c *channel) (v value, ok bool, done bool) {
	if len(c.buf) > 0 {
		v = c.buf[0]
		c.buf = c.buf[1:]
		// a blocked sender can now fill the buffer
		if s := popLive(&c.sendq); s != nil {
			c.buf = append(c.buf, s.val)
			s.complete(nil, true)
		}
		return v, true, true
	}
	if s := popLive(&c.sendq); s != nil {
		v = s.val
		s.complete(nil, true)
		return v, true, true
	}
	if c.closed {
		return nil, false, true
	}
	return nil, false, false
}

func chanSend(c *channel, v value) {
	yield()
	if c == nil {
		block("send on nil channel")
		panic(deadlockPanic("send on nil channel"))
	}
	raceChanSendBefore(c)
	if trySend(c, v) {
		raceChanSendAfter(c)
		return
	}
	w := &waiter{g: sched.cur, val: v}
	c.sendq = append(c.sendq, w)
	for !w.done {
		block("chan send")
	}
	raceChanSendAfter(c)
	if c.closed && !w.ok {
		panic(targetPanicString("send on closed channel"))
	}
}

func chanRecv(c *channel, elem types.Type) (value, bool) {
	yield()
	if c == nil {
		block("receive from nil channel")
		panic(deadlockPanic("receive from nil channel"))
	}
	raceChanRecvBefore(c)
	v, ok, done := tryRecv(c)
	if done {
		raceChanRecvAfter(c)
		if !ok {
			v = zero(elem)
		}
		return v, ok
	}
	w := &waiter{g: sched.cur}
	c.recvq = append(c.recvq, w)
	for !w.done {
		block("chan receive")
	}
	raceChanRecvAfter(c)
	if !w.ok {
		return zero(elem), false
	}
	return w.val, true
}

func chanClose(c *channel) {
	if c == nil {
		panic(targetPanicString("close of nil channel"))
	}
	if c.closed {
		panic(targetPanicString("close of closed channel"))
	}
	raceChanCloseBefore(c)
	c.closed = true
	for {
		r := popLive(&c.recvq)
		if r == nil {
			break
		}
		r.complete(nil, false)
	}
	for {
		s := popLive(&c.sendq)
		if s == nil {
			break
		}
		s.ok = false
		s.complete(nil, false)
	}
}

func targetPanicString(s string) any { return runtimePanic(s) }

func doSelect(fr *frame, instr *ssa.Select) value {
	yield()
	type scase struct {
		c    *channel
		send bool
		val  value
	}
	cases := make([]scase, len(instr.States))
	for i, st := range instr.States {
		c, _ := fr.get(st.Chan).(*channel)
		cases[i] = scase{c: c, send: st.Dir == types.SendOnly}
		if st.Send != nil {
			cases[i].val = fr.get(st.Send)
		}
	}
	if RaceOn {
		for _, sc := range cases {
			if sc.c == nil {
				continue
			}
			if sc.send {
				raceChanSendBefore(sc.c)
			} else {
				raceChanRecvBefore(sc.c)
			}
		}
	}
	chosen := -1
	var rval value
	rok := false
	// ready cases
	var ready []int
	for i, sc := range cases {
		if sc.c == nil {
			continue
		}
		if sc.send {
			if sc.c.closed || hasLive(sc.c.recvq) || len(sc.c.buf) < sc.c.cap {
				ready = append(ready, i)
			}
		} else if len(sc.c.buf) > 0 || hasLive(sc.c.sendq) || sc.c.closed {
			ready = append(ready, i)
		}
	}
	if len(ready) > 0 {
		k := 0
		if X.SchedChoice && len(ready) > 1 {
			k = X.Choice(len(ready))
		}
		chosen = ready[k]
		sc := cases[chosen]
		if sc.send {
			trySend(sc.c, sc.val)
		} else {
			rval, rok, _ = tryRecv(sc.c)
		}
	} else if !instr.Blocking {
		chosen = -1
	} else {
		st := &selState{}
		for i, sc := range cases {
			if sc.c == nil {
				continue
			}
			w := &waiter{g: sched.cur, sel: st, idx: i, val: sc.val}
			if sc.send {
				sc.c.sendq = append(sc.c.sendq, w)
			} else {
				sc.c.recvq = append(sc.c.recvq, w)
			}
		}
		for !st.done {
			block("select")
		}
		chosen = st.chosen
		rval, rok = st.val, st.ok
		if cases[chosen].send && cases[chosen].c.closed && !rok {
			panic(targetPanicString("send on closed channel"))
		}
	}
	if RaceOn && chosen >= 0 {
		if cases[chosen].send {
			raceChanSendAfter(cases[chosen].c)
		} else {
			raceChanRecvAfter(cases[chosen].c)
		}
	}
	r := tuple{chosen, rok}
	for i, st := range instr.States {
		if st.Dir == types.RecvOnly {
			var v value
			if i == chosen && rok {
				v = rval
			} else {
				v = zero(st.Chan.Type().Underlying().(*types.Chan).Elem())
			}
			r = append(r, v)
		}
	}
	return r
}

// ---- mutexes -------------------------------------------------------------------

type mutexState struct {
	locked  bool
	waiters []*gor
	readers int
}

func mutexOf(addr *value) *mutexState {
	if X.mutexes == nil {
		X.mutexes = map[*value]*mutexState{}
	}
	m := X.mutexes[addr]
	if m == nil {
		m = &mutexState{}
		X.mutexes[addr] = m
	}
	return m
}

func mutexLock(addr *value) {
	yield()
	m := mutexOf(addr)
	for m.locked {
		m.waiters = append(m.waiters, sched.cur)
		block("mutex")
	}
	m.locked = true
	raceAcquire(addr)
}

func mutexUnlock(addr *value) {
	m := mutexOf(addr)
	if !m.locked {
		panic(runtimePanic("sync: unlock of unlocked mutex"))
	}
	raceRelease(addr)
	m.locked = false
	for _, g := range m.waiters {
		makeRunnable(g)
	}
	m.waiters = nil
	yield()
}
