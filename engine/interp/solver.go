package interp

// Long-lived SMT solver processes (z3 -in, z3-new -in, cvc5 --incremental).
// Term definitions are sent once at assertion level 0 as define-fun; each
// query is (push) (assert ...)* (check-sat) [(get-value ...)] (pop).

import (
	"bufio"
	"fmt"
	"math/big"
	"io"
	"os"
	"os/exec"
	"strconv"
	"strings"
	"time"
)

type SatResult int

const (
	Unsat SatResult = iota
	Sat
	Unknown
)

func (r SatResult) String() string { return [...]string{"unsat", "sat", "unknown"}[r] }

type Solver struct {
	Name      string
	cmd       *exec.Cmd
	in        io.WriteCloser
	out       *bufio.Reader
	defined   map[int]bool
	declared  map[string]bool
	stack     []int   // term ids asserted, one solver frame each (incremental mode)
	defDepth  map[int]int // term id -> frame depth at which it was defined
	log       io.Writer
	Flat      bool // do not keep the path condition on the solver's stack (cvc5 is slow with many frames)
	pendingDecls strings.Builder
	timeoutMs int

	Queries   int
	NSat      int
	NUnsat    int
	NUnknown  int
	Time      time.Duration
	MaxQuery  time.Duration
	ModelTime time.Duration
	LastQuery string // SMT-LIB text of the last query (for evidence samples)
	Errors    []string
}

func solverArgv(name string, timeoutMs int) []string {
	switch name {
	case "z3":
		return []string{"z3", "-in", "-t:" + strconv.Itoa(timeoutMs)}
	case "z3-new":
		return []string{"z3-new", "-in", "-t:" + strconv.Itoa(timeoutMs)}
	case "cvc5":
		return []string{"cvc5", "--incremental", "--lang=smt2", "--produce-models", "--tlimit-per=" + strconv.Itoa(timeoutMs)}
	case "cvc5-int":
		return []string{"cvc5", "--incremental", "--lang=smt2", "--produce-models", "--solve-bv-as-int=sum", "--tlimit-per=" + strconv.Itoa(timeoutMs)}
	}
	return nil
}

func NewSolver(name string, timeoutMs int, logPath string) (*Solver, error) {
	argv := solverArgv(name, timeoutMs)
	if argv == nil {
		return nil, fmt.Errorf("unknown solver %q", name)
	}
	cmd := exec.Command(argv[0], argv[1:]...)
	in, err := cmd.StdinPipe()
	if err != nil {
		return nil, err
	}
	outp, err := cmd.StdoutPipe()
	if err != nil {
		return nil, err
	}
	cmd.Stderr = os.Stderr
	if err := cmd.Start(); err != nil {
		return nil, err
	}
	s := &Solver{Name: name, cmd: cmd, in: in, out: bufio.NewReaderSize(outp, 1<<16),
		defined: map[int]bool{}, declared: map[string]bool{}, defDepth: map[int]int{}, timeoutMs: timeoutMs}
	if logPath != "" {
		f, err := os.Create(logPath)
		if err == nil {
			s.log = f
		}
	}
	s.send("(set-option :produce-models true)\n(set-logic ALL)\n")
	s.Flat = strings.HasPrefix(name, "cvc5")
	return s, nil
}

func (s *Solver) send(text string) {
	if s.log != nil {
		io.WriteString(s.log, text)
	}
	io.WriteString(s.in, text)
}

func (s *Solver) Close() {
	if s == nil || s.cmd == nil {
		return
	}
	s.send("(exit)\n")
	s.in.Close()
	done := make(chan struct{})
	go func() { s.cmd.Wait(); close(done) }()
	select {
	case <-done:
	case <-time.After(2 * time.Second):
		s.cmd.Process.Kill()
	}
}

// define emits declarations/definitions for t and its sub-terms.
func (s *Solver) define(t *Term, b *strings.Builder) {
	if t.op == OpConst {
		return
	}
	if t.op == OpVar {
		if !s.declared[t.name] {
			s.declared[t.name] = true
			fmt.Fprintf(b, "(declare-fun %s () %s)\n", smtSym(t.name), t.sort)
		}
		return
	}
	if s.defined[t.id] {
		return
	}
	for _, a := range t.args {
		s.define(a, b)
	}
	s.defined[t.id] = true
	fmt.Fprintf(b, "(define-fun %s () %s %s)\n", t.ref(), t.sort, t.body())
}

// defineScoped emits global declarations into decls and definitions into defs.
func (s *Solver) defineScoped(t *Term, decls, defs *strings.Builder) {
	if t.op == OpConst {
		return
	}
	if t.op == OpVar {
		if !s.declared[t.name] {
			s.declared[t.name] = true
			fmt.Fprintf(decls, "(declare-fun %s () %s)\n", smtSym(t.name), t.sort)
		}
		return
	}
	if s.defined[t.id] {
		return
	}
	for _, a := range t.args {
		s.defineScoped(a, decls, defs)
	}
	s.defined[t.id] = true
	// declare-const + defining equation keeps the DAG shared (define-fun is
	// macro-expanded into a tree by z3 4.8, which is exponential on deep
	// ite-chains).
	fmt.Fprintf(defs, "(declare-fun %s () %s)\n(assert (= %s %s))\n", t.ref(), t.sort, t.ref(), t.body())
}

// readResponse reads one s-expression or atom line from the solver.
func (s *Solver) readResponse() (string, error) {
	var sb strings.Builder
	depth := 0
	started := false
	for {
		line, err := s.out.ReadString('\n')
		if err != nil && line == "" {
			return sb.String(), err
		}
		if s.log != nil {
			io.WriteString(s.log, "; <- "+line)
		}
		inStr := false
		for _, c := range line {
			switch {
			case c == '"':
				inStr = !inStr
			case inStr:
			case c == '(':
				depth++
			case c == ')':
				depth--
			}
		}
		if strings.TrimSpace(line) != "" {
			started = true
		}
		sb.WriteString(line)
		if started && depth <= 0 {
			return strings.TrimSpace(sb.String()), nil
		}
	}
}

// Portfolio tries its solvers in order until one gives a definite answer.
type Portfolio struct {
	Names     []string
	TimeoutMs int
	LogPath   string
	solvers   []*Solver
	LastQuery string
	Fallbacks int // queries decided by a solver other than the first
}

func NewPortfolio(names []string, timeoutMs int, logPath string) (*Portfolio, error) {
	p := &Portfolio{Names: names, TimeoutMs: timeoutMs, LogPath: logPath}
	s, err := NewSolver(names[0], timeoutMs, logPath)
	if err != nil {
		return nil, err
	}
	p.solvers = []*Solver{s}
	return p, nil
}

func (p *Portfolio) Close() {
	for _, s := range p.solvers {
		s.Close()
	}
}

func (p *Portfolio) Solvers() []*Solver { return p.solvers }

func (p *Portfolio) Queries() int {
	n := 0
	for _, s := range p.solvers {
		n += s.Queries
	}
	return n
}

func (p *Portfolio) Errors() []string {
	var out []string
	for _, s := range p.solvers {
		for _, e := range s.Errors {
			out = append(out, s.Name+": "+e)
		}
	}
	return out
}

func (p *Portfolio) Check(pc []*Term, extra []*Term, vars []*Term) (SatResult, *Model) {
	for i := 0; i < len(p.Names); i++ {
		if i >= len(p.solvers) {
			lp := ""
			if p.LogPath != "" {
				lp = p.LogPath + "." + p.Names[i]
			}
			s, err := NewSolver(p.Names[i], p.TimeoutMs, lp)
			if err != nil {
				break
			}
			p.solvers = append(p.solvers, s)
		}
		res, m := p.solvers[i].Check(pc, extra, vars)
		p.LastQuery = p.solvers[i].LastQuery
		if res != Unknown {
			if i > 0 {
				p.Fallbacks++
			}
			return res, m
		}
	}
	return Unknown, nil
}

// defineInc emits declarations and defining equations for t at frame depth d.
func (s *Solver) defineInc(t *Term, d int, out *strings.Builder) {
	if t.op == OpConst {
		return
	}
	if _, ok := s.defDepth[t.id]; ok {
		return
	}
	if t.op == OpVar {
		s.defDepth[t.id] = d
		fmt.Fprintf(out, "(declare-fun %s () %s)\n", smtSym(t.name), t.sort)
		return
	}
	for _, a := range t.args {
		s.defineInc(a, d, out)
	}
	s.defDepth[t.id] = d
	// declare-const + defining equation keeps the DAG shared (define-fun is
	// macro-expanded into a tree by z3 4.8, exponential on deep ite-chains).
	if s.Flat {
		// cvc5: macros are fine (and much faster than equations for LIA).
		fmt.Fprintf(out, "(define-fun %s () %s %s)\n", t.ref(), t.sort, t.body())
		return
	}
	fmt.Fprintf(out, "(declare-fun %s () %s)\n(assert (= %s %s))\n", t.ref(), t.sort, t.ref(), t.body())
}

// popTo pops solver frames down to depth d.
func (s *Solver) popTo(d int, out *strings.Builder) {
	if len(s.stack) <= d {
		return
	}
	fmt.Fprintf(out, "(pop %d)\n", len(s.stack)-d)
	s.stack = s.stack[:d]
	for id, dd := range s.defDepth {
		if dd > d {
			delete(s.defDepth, id)
		}
	}
}

// Check decides satisfiability of pc AND extra.  The solver's assertion
// stack is kept aligned with pc (one frame per conjunct, matched by term id),
// so consecutive queries along a path - and along the next path, which shares
// a prefix - only send what is new.  When sat, the model of vars is returned.
func (s *Solver) Check(pc []*Term, extra []*Term, vars []*Term) (SatResult, *Model) {
	if s.Flat {
		return s.checkFlat(pc, extra, vars)
	}
	var out strings.Builder
	// align
	k := 0
	for k < len(s.stack) && k < len(pc) && s.stack[k] == pc[k].id {
		k++
	}
	s.popTo(k, &out)
	for ; k < len(pc); k++ {
		out.WriteString("(push 1)\n")
		s.stack = append(s.stack, pc[k].id)
		s.defineInc(pc[k], len(s.stack), &out)
		fmt.Fprintf(&out, "(assert %s)\n", pc[k].ref())
	}
	// the query frame
	out.WriteString("(push 1)\n")
	s.stack = append(s.stack, -1)
	for _, a := range extra {
		s.defineInc(a, len(s.stack), &out)
	}
	for _, v := range vars {
		s.defineInc(v, len(s.stack), &out)
	}
	for _, a := range extra {
		fmt.Fprintf(&out, "(assert %s)\n", a.ref())
	}
	out.WriteString("(check-sat)\n")
	text := out.String()
	if s.pendingDecls.Len() > 0 {
		// declarations must precede their first use; they are emitted at the
		// current level but never popped logically because s.declared is only
		// reset together with the frames (see below).
		text = s.pendingDecls.String() + text
		s.pendingDecls.Reset()
	}
	start := time.Now()
	s.send(text)
	s.LastQuery = lastQueryText(pc, extra)
	resp, err := s.readResponse()
	el := time.Since(start)
	s.Time += el
	if el > s.MaxQuery {
		s.MaxQuery = el
	}
	s.Queries++
	res := Unknown
	switch {
	case err != nil:
		s.Errors = append(s.Errors, "solver io: "+err.Error())
	case resp == "sat":
		res = Sat
	case resp == "unsat":
		res = Unsat
	case strings.Contains(resp, "(error"):
		s.Errors = append(s.Errors, resp)
	}
	var model *Model
	if res == Sat && len(vars) > 0 {
		var g strings.Builder
		g.WriteString("(get-value (")
		for _, v := range vars {
			g.WriteString(v.ref())
			g.WriteByte(' ')
		}
		g.WriteString("))\n")
		gstart := time.Now()
		s.send(g.String())
		r, err := s.readResponse()
		s.Time += time.Since(gstart)
		s.ModelTime += time.Since(gstart)
		if err != nil || strings.Contains(r, "(error") {
			s.Errors = append(s.Errors, "get-value: "+r)
			res = Unknown
		} else {
			model, err = parseValues(r, vars)
			if err != nil {
				s.Errors = append(s.Errors, "parse model: "+err.Error()+": "+r)
				res = Unknown
			}
		}
	}
	var pb strings.Builder
	s.popTo(len(s.stack)-1, &pb)
	s.send(pb.String())
	switch res {
	case Sat:
		s.NSat++
	case Unsat:
		s.NUnsat++
	default:
		s.NUnknown++
	}
	return res, model
}

// checkFlat: definitions are global macros (level 0, never popped); each
// query asserts the whole path condition in one frame.  This is the fastest
// arrangement for cvc5.
func (s *Solver) checkFlat(pc []*Term, extra []*Term, vars []*Term) (SatResult, *Model) {
	var b strings.Builder
	for _, a := range pc {
		s.define(a, &b)
	}
	for _, a := range extra {
		s.define(a, &b)
	}
	for _, v := range vars {
		s.define(v, &b)
	}
	var q strings.Builder
	q.WriteString("(push 1)\n")
	for _, a := range pc {
		fmt.Fprintf(&q, "(assert %s)\n", a.ref())
	}
	for _, a := range extra {
		fmt.Fprintf(&q, "(assert %s)\n", a.ref())
	}
	q.WriteString("(check-sat)\n")
	start := time.Now()
	s.send(b.String())
	s.send(q.String())
	s.LastQuery = lastQueryText(pc, extra)
	resp, err := s.readResponse()
	el := time.Since(start)
	s.Time += el
	if el > s.MaxQuery {
		s.MaxQuery = el
	}
	s.Queries++
	res := Unknown
	switch {
	case err != nil:
		s.Errors = append(s.Errors, "solver io: "+err.Error())
	case resp == "sat":
		res = Sat
	case resp == "unsat":
		res = Unsat
	case strings.Contains(resp, "(error"):
		s.Errors = append(s.Errors, resp)
	}
	var model *Model
	if res == Sat && len(vars) > 0 {
		var g strings.Builder
		g.WriteString("(get-value (")
		for _, v := range vars {
			g.WriteString(v.ref())
			g.WriteByte(' ')
		}
		g.WriteString("))\n")
		gstart := time.Now()
		s.send(g.String())
		r, err := s.readResponse()
		s.Time += time.Since(gstart)
		s.ModelTime += time.Since(gstart)
		if err != nil || strings.Contains(r, "(error") {
			s.Errors = append(s.Errors, "get-value: "+r)
			res = Unknown
		} else {
			model, err = parseValues(r, vars)
			if err != nil {
				s.Errors = append(s.Errors, "parse model: "+err.Error()+": "+r)
				res = Unknown
			}
		}
	}
	s.send("(pop 1)\n")
	switch res {
	case Sat:
		s.NSat++
	case Unsat:
		s.NUnsat++
	default:
		s.NUnknown++
	}
	return res, model
}

func lastQueryText(pc, extra []*Term) string {
	var b strings.Builder
	for _, t := range pc {
		fmt.Fprintf(&b, "(assert %s)\n", t.String())
	}
	for _, t := range extra {
		fmt.Fprintf(&b, "(assert %s) ; negated obligation / branch condition\n", t.String())
	}
	b.WriteString("(check-sat)\n")
	if b.Len() > 4000 {
		return b.String()[:4000] + "..."
	}
	return b.String()
}

// parseValues parses "((name val) (name val) ...)".
func parseValues(resp string, vars []*Term) (*Model, error) {
	toks := tokenize(resp)
	m := NewModel()
	// Expect: ( ( name val ) ... ) where val may be an s-expr like (- 5) or (_ bv5 8)
	pos := 0
	next := func() string {
		if pos >= len(toks) {
			return ""
		}
		t := toks[pos]
		pos++
		return t
	}
	if next() != "(" {
		return nil, fmt.Errorf("expected (")
	}
	for i := 0; i < len(vars); i++ {
		if next() != "(" {
			return nil, fmt.Errorf("expected ( for pair %d", i)
		}
		next() // name
		// value
		var val []string
		depth := 0
		for {
			t := next()
			if t == "" {
				return nil, fmt.Errorf("eof in value")
			}
			if t == "(" {
				depth++
			} else if t == ")" {
				if depth == 0 {
					break
				}
				depth--
			}
			val = append(val, t)
		}
		if vars[i].sort.W < 0 {
			bi, err := parseIntValue(val)
			if err != nil {
				return nil, err
			}
			m.I[vars[i].name] = bi
			continue
		}
		v, err := parseValue(val, vars[i].sort)
		if err != nil {
			return nil, err
		}
		m.B[vars[i].name] = v
	}
	return m, nil
}

func tokenize(s string) []string {
	var toks []string
	i := 0
	for i < len(s) {
		c := s[i]
		switch {
		case c == '(' || c == ')':
			toks = append(toks, string(c))
			i++
		case c == ' ' || c == '\n' || c == '\t' || c == '\r':
			i++
		case c == '|':
			j := strings.IndexByte(s[i+1:], '|')
			if j < 0 {
				j = len(s) - i - 2
			}
			toks = append(toks, s[i:i+j+2])
			i += j + 2
		default:
			j := i
			for j < len(s) && !strings.ContainsRune("() \n\t\r", rune(s[j])) {
				j++
			}
			toks = append(toks, s[i:j])
			i = j
		}
	}
	return toks
}

func parseValue(val []string, sort Sort) (uint64, error) {
	if len(val) == 0 {
		return 0, fmt.Errorf("empty value")
	}
	switch {
	case sort.W == 0:
		return map[string]uint64{"true": 1, "false": 0}[val[0]], nil
	case sort.W > 0:
		v := val[0]
		if strings.HasPrefix(v, "#x") {
			return strconv.ParseUint(v[2:], 16, 64)
		}
		if strings.HasPrefix(v, "#b") {
			return strconv.ParseUint(v[2:], 2, 64)
		}
		if v == "(" && len(val) >= 3 && val[1] == "_" && strings.HasPrefix(val[2], "bv") {
			return strconv.ParseUint(val[2][2:], 10, 64)
		}
		return 0, fmt.Errorf("bad bv value %v", val)
	default: // Int
		if val[0] == "(" && len(val) >= 3 && val[1] == "-" {
			u, err := strconv.ParseUint(val[2], 10, 64)
			return uint64(-int64(u)), err
		}
		u, err := strconv.ParseUint(val[0], 10, 64)
		return u, err
	}
}

func parseIntValue(val []string) (*big.Int, error) {
	if len(val) == 0 {
		return nil, fmt.Errorf("empty int value")
	}
	neg := false
	tok := val[0]
	if tok == "(" && len(val) >= 3 && val[1] == "-" {
		neg = true
		tok = val[2]
	}
	b, ok := new(big.Int).SetString(tok, 10)
	if !ok {
		return nil, fmt.Errorf("bad int value %v", val)
	}
	if neg {
		b.Neg(b)
	}
	return b, nil
}
