package interp

// Symbolic scalar values and strings with symbolic bytes.

import (
	"fmt"
	"go/token"
	"go/types"
	"math/big"
)

// sym is a symbolic bool or fixed-width integer.
type sym struct {
	t    *Term
	kind types.BasicKind // types.Bool, types.Int ... types.Uintptr
}

// sstr is a string at least one byte of which is symbolic.  Elements are
// uint8 or sym{kind: Uint8}.  Immutable.
type sstr struct {
	b []value
}

func kindWidth(k types.BasicKind) int {
	switch k {
	case types.Bool:
		return 0
	case types.Int8, types.Uint8:
		return 8
	case types.Int16, types.Uint16:
		return 16
	case types.Int32, types.Uint32:
		return 32
	case types.Int, types.Int64, types.Uint, types.Uint64, types.Uintptr:
		return 64
	}
	panic(fmt.Sprintf("kindWidth: %v", k))
}

func kindSigned(k types.BasicKind) bool {
	switch k {
	case types.Int, types.Int8, types.Int16, types.Int32, types.Int64:
		return true
	}
	return false
}

// kindOf returns the basic kind of a concrete or symbolic scalar; ok=false otherwise.
func kindOf(v value) (types.BasicKind, bool) {
	switch v := v.(type) {
	case sym:
		return v.kind, true
	case bool:
		return types.Bool, true
	case int:
		return types.Int, true
	case int8:
		return types.Int8, true
	case int16:
		return types.Int16, true
	case int32:
		return types.Int32, true
	case int64:
		return types.Int64, true
	case uint:
		return types.Uint, true
	case uint8:
		return types.Uint8, true
	case uint16:
		return types.Uint16, true
	case uint32:
		return types.Uint32, true
	case uint64:
		return types.Uint64, true
	case uintptr:
		return types.Uintptr, true
	}
	return 0, false
}

func isSym(v value) bool {
	switch v.(type) {
	case sym, sstr:
		return true
	}
	return false
}

// bitsOf returns the raw bits of a concrete integer/bool value.
func bitsOf(v value) uint64 {
	switch v := v.(type) {
	case bool:
		if v {
			return 1
		}
		return 0
	case int:
		return uint64(v)
	case int8:
		return uint64(v)
	case int16:
		return uint64(v)
	case int32:
		return uint64(v)
	case int64:
		return uint64(v)
	case uint:
		return uint64(v)
	case uint8:
		return uint64(v)
	case uint16:
		return uint64(v)
	case uint32:
		return uint64(v)
	case uint64:
		return v
	case uintptr:
		return uint64(v)
	}
	panic(fmt.Sprintf("bitsOf: %T", v))
}

// fromBits builds the concrete Go value of kind k with the given bits.
func fromBits(k types.BasicKind, b uint64) value {
	switch k {
	case types.Bool:
		return b != 0
	case types.Int:
		return int(b)
	case types.Int8:
		return int8(b)
	case types.Int16:
		return int16(b)
	case types.Int32:
		return int32(b)
	case types.Int64:
		return int64(b)
	case types.Uint:
		return uint(b)
	case types.Uint8:
		return uint8(b)
	case types.Uint16:
		return uint16(b)
	case types.Uint32:
		return uint32(b)
	case types.Uint64:
		return uint64(b)
	case types.Uintptr:
		return uintptr(b)
	}
	panic(fmt.Sprintf("fromBits: %v", k))
}

func sortOfKind(k types.BasicKind) Sort {
	if k == types.Bool {
		return BoolSort
	}
	if liaMode {
		return IntSort
	}
	return BV(kindWidth(k))
}

// lift returns the term for a scalar value.
func lift(v value) *Term {
	if s, ok := v.(sym); ok {
		return s.t
	}
	k, ok := kindOf(v)
	if !ok {
		panic(fmt.Sprintf("lift: not a scalar: %T", v))
	}
	if k != types.Bool && liaMode {
		if kindSigned(k) {
			return mkConst(IntSort, uint64(sext64(bitsOf(v), kindWidth(k))))
		}
		return mkIntBig(new(big.Int).SetUint64(bitsOf(v)))
	}
	return mkConst(sortOfKind(k), bitsOf(v))
}

// mkval wraps a term as a value of kind k, concretising constants.
func mkval(t *Term, k types.BasicKind) value {
	if t.op == OpConst {
		if t.sort.W < 0 {
			return fromBits(k, t.val)
		}
		return fromBits(k, t.val)
	}
	return sym{t, k}
}

func mkbool(t *Term) value { return mkval(t, types.Bool) }

// asTermBool returns the Bool term of a bool value.
func asTermBool(v value) *Term {
	switch v := v.(type) {
	case bool:
		return mkBool(v)
	case sym:
		return v.t
	}
	panic(fmt.Sprintf("asTermBool: %T", v))
}

// truth resolves a (possibly symbolic) bool by branching the path.
func truth(v value) bool {
	switch v := v.(type) {
	case bool:
		return v
	case sym:
		return X.Branch(v.t)
	}
	panic(fmt.Sprintf("truth: %T", v))
}

// ---- strings ----------------------------------------------------------------

// strBytes returns the bytes of a string value (string or sstr).
func strBytes(v value) []value {
	switch v := v.(type) {
	case string:
		out := make([]value, len(v))
		for i := 0; i < len(v); i++ {
			out[i] = v[i]
		}
		return out
	case sstr:
		return v.b
	}
	panic(fmt.Sprintf("strBytes: %T", v))
}

func strLen(v value) int {
	switch v := v.(type) {
	case string:
		return len(v)
	case sstr:
		return len(v.b)
	}
	panic(fmt.Sprintf("strLen: %T", v))
}

// mkstr builds a string value from bytes, normalising to a native string
// when all bytes are concrete.
func mkstr(b []value) value {
	allc := true
	for _, x := range b {
		if _, ok := x.(uint8); !ok {
			allc = false
			break
		}
	}
	if allc {
		bs := make([]byte, len(b))
		for i, x := range b {
			bs[i] = x.(uint8)
		}
		return string(bs)
	}
	cp := make([]value, len(b))
	copy(cp, b)
	return sstr{cp}
}

func isStr(v value) bool {
	switch v.(type) {
	case string, sstr:
		return true
	}
	return false
}

// strEqT returns the Bool term for x == y on strings.
func strEqT(x, y value) *Term {
	if xs, ok := x.(string); ok {
		if ys, ok := y.(string); ok {
			return mkBool(xs == ys)
		}
	}
	if strLen(x) != strLen(y) {
		return tFalse
	}
	xb, yb := strBytes(x), strBytes(y)
	conj := make([]*Term, 0, len(xb))
	for i := range xb {
		conj = append(conj, mkEq(lift(xb[i]), lift(yb[i])))
	}
	return mkAnd(conj...)
}

// strLessT returns the Bool term for x < y (lexicographic, bytewise).
func strLessT(x, y value) *Term {
	xb, yb := strBytes(x), strBytes(y)
	// less = OR_i (prefix equal up to i AND (i==len(x) < len(y)  OR x[i]<y[i]))
	n := len(xb)
	if len(yb) < n {
		n = len(yb)
	}
	res := mkBool(len(xb) < len(yb)) // all common bytes equal
	for i := n - 1; i >= 0; i-- {
		a, b := lift(xb[i]), lift(yb[i])
		res = mkIte(mkEq(a, b), res, mkBvCmp(OpBvUlt, a, b))
	}
	return res
}

// ---- scalar operations ---------------------------------------------------------

func symBinop(op token.Token, t types.Type, x, y value) value {
	if isStr(x) || isStr(y) {
		switch op {
		case token.ADD:
			return mkstr(append(append([]value{}, strBytes(x)...), strBytes(y)...))
		case token.EQL:
			return mkbool(strEqT(x, y))
		case token.NEQ:
			return mkbool(mkNot(strEqT(x, y)))
		case token.LSS:
			return mkbool(strLessT(x, y))
		case token.GTR:
			return mkbool(strLessT(y, x))
		case token.LEQ:
			return mkbool(mkNot(strLessT(y, x)))
		case token.GEQ:
			return mkbool(mkNot(strLessT(x, y)))
		}
		panic(unsupported("string binop " + op.String()))
	}
	kx, okx := kindOf(x)
	ky, oky := kindOf(y)
	if !okx || !oky {
		panic(unsupported(fmt.Sprintf("symbolic binop %s on %T, %T", op, x, y)))
	}
	if liaMode && kx != types.Bool {
		return liaBinop(op, kx, ky, x, y)
	}
	a, b := lift(x), lift(y)
	signed := kindSigned(kx)
	w := kindWidth(kx)
	switch op {
	case token.ADD:
		return mkval(mkBv(OpBvAdd, a, b), kx)
	case token.SUB:
		return mkval(mkBv(OpBvSub, a, b), kx)
	case token.MUL:
		return mkval(mkBv(OpBvMul, a, b), kx)
	case token.QUO, token.REM:
		if X.Branch(mkEq(b, mkConst(b.sort, 0))) {
			panic(runtimePanic("runtime error: integer divide by zero"))
		}
		var o Op
		switch {
		case op == token.QUO && signed:
			o = OpBvSDiv
		case op == token.QUO:
			o = OpBvUDiv
		case signed:
			o = OpBvSRem
		default:
			o = OpBvURem
		}
		return mkval(mkBv(o, a, b), kx)
	case token.AND:
		return mkval(mkBv(OpBvAnd, a, b), kx)
	case token.OR:
		return mkval(mkBv(OpBvOr, a, b), kx)
	case token.XOR:
		return mkval(mkBv(OpBvXor, a, b), kx)
	case token.AND_NOT:
		return mkval(mkBv(OpBvAnd, a, mkBvNot(b)), kx)
	case token.SHL, token.SHR:
		wy := kindWidth(ky)
		if kindSigned(ky) {
			if X.Branch(mkBvCmp(OpBvSlt, b, mkConst(b.sort, 0))) {
				panic(runtimePanic("runtime error: negative shift amount"))
			}
		}
		// saturate the shift amount to w, at width w.
		var amt *Term
		if wy > w {
			big := mkBvCmp(OpBvUle, mkConst(b.sort, uint64(w)), b)
			amt = mkIte(big, mkConst(BV(w), uint64(w)), mkExtract(b, w-1, 0))
		} else {
			amt = mkZext(b, w)
		}
		var o Op
		switch {
		case op == token.SHL:
			o = OpBvShl
		case signed:
			o = OpBvAshr
		default:
			o = OpBvLshr
		}
		return mkval(mkBv(o, a, amt), kx)
	case token.EQL:
		return mkbool(mkEq(a, b))
	case token.NEQ:
		return mkbool(mkNot(mkEq(a, b)))
	case token.LSS, token.LEQ, token.GTR, token.GEQ:
		if op == token.GTR || op == token.GEQ {
			a, b = b, a
		}
		var o Op
		strict := op == token.LSS || op == token.GTR
		switch {
		case strict && signed:
			o = OpBvSlt
		case strict:
			o = OpBvUlt
		case signed:
			o = OpBvSle
		default:
			o = OpBvUle
		}
		return mkbool(mkBvCmp(o, a, b))
	}
	panic(unsupported("symbolic binop " + op.String()))
}

func symUnop(op token.Token, x value) value {
	s := x.(sym)
	if s.kind == types.Bool {
		if op == token.NOT {
			return mkbool(mkNot(s.t))
		}
		panic(unsupported("bool unop " + op.String()))
	}
	if liaMode {
		return liaUnop(op, s)
	}
	switch op {
	case token.SUB:
		return mkval(mkBvNeg(s.t), s.kind)
	case token.XOR:
		return mkval(mkBvNot(s.t), s.kind)
	}
	panic(unsupported("symbolic unop " + op.String()))
}

// symConvInt converts symbolic integer x to integer kind dst.
func symConvInt(x sym, dst types.BasicKind) value {
	if liaMode {
		return liaConv(x, dst)
	}
	ws, wd := kindWidth(x.kind), kindWidth(dst)
	var t *Term
	switch {
	case wd == ws:
		t = x.t
	case wd < ws:
		t = mkExtract(x.t, wd-1, 0)
	case kindSigned(x.kind):
		t = mkSext(x.t, wd)
	default:
		t = mkZext(x.t, wd)
	}
	return mkval(t, dst)
}

// concretize forces a scalar to a concrete Go value, forking the path over
// its feasible values.
func concretize(v value) value {
	s, ok := v.(sym)
	if !ok {
		return v
	}
	if s.kind == types.Bool {
		return X.Branch(s.t)
	}
	bits := X.Concretize(s.t)
	return fromBits(s.kind, bits)
}

// concreteInt64 forces an integer value to a concrete int64.
func concreteInt64(v value) int64 {
	return asInt64c(concretize(v))
}

func asInt64c(x value) int64 {
	return asInt64(x)
}

// concreteString forces a string to a native Go string.
func concreteString(v value) string {
	switch v := v.(type) {
	case string:
		return v
	case sstr:
		bs := make([]byte, len(v.b))
		for i, x := range v.b {
			bs[i] = concretize(x).(uint8)
		}
		return string(bs)
	}
	panic(fmt.Sprintf("concreteString: %T", v))
}

// equalsT returns the Bool term for x == y at static type t.
func equalsT(t types.Type, x, y value) *Term {
	switch x := x.(type) {
	case sym:
		return mkEq(x.t, lift(y))
	case sstr:
		return strEqT(x, y)
	case string:
		if _, ok := y.(sstr); ok {
			return strEqT(x, y)
		}
	case structure:
		ys := y.(structure)
		tStruct := t.Underlying().(*types.Struct)
		var conj []*Term
		for i, n := 0, tStruct.NumFields(); i < n; i++ {
			f := tStruct.Field(i)
			if f.Name() == "_" {
				continue
			}
			conj = append(conj, equalsT(f.Type(), x[i], ys[i]))
		}
		return mkAnd(conj...)
	case array:
		ya := y.(array)
		tElt := t.Underlying().(*types.Array).Elem()
		var conj []*Term
		for i := range x {
			conj = append(conj, equalsT(tElt, x[i], ya[i]))
		}
		return mkAnd(conj...)
	case iface:
		yi := y.(iface)
		if !sameType(x.t, yi.t) {
			return tFalse
		}
		if x.t == nil {
			return tTrue
		}
		return equalsT(x.t, x.v, yi.v)
	}
	if ys, ok := y.(sym); ok {
		return mkEq(lift(x), ys.t)
	}
	return mkBool(equals(t, x, y))
}

// symElemPtr is &container[idx] for a symbolic in-range idx over a
// container of scalars: loads are ite-chains, stores update every element
// conditionally.  No forking.
type symElemPtr struct {
	elems []value
	idx   sym
}

const maxSymIndexLen = 512

// symElem builds a symbolic element pointer when idx is symbolic and all
// elements are scalars of one kind; it performs the bounds check (forking
// once: in range / panic).
func symElem(elems []value, idx value) (symElemPtr, bool) {
	s, ok := idx.(sym)
	if !ok || len(elems) == 0 || len(elems) > maxSymIndexLen {
		return symElemPtr{}, false
	}
	k0, ok := kindOf(elems[0])
	if !ok {
		return symElemPtr{}, false
	}
	for _, e := range elems[1:] {
		if k, ok := kindOf(e); !ok || k != k0 {
			return symElemPtr{}, false
		}
	}
	if !X.Branch(symInRange(s, 0, uint64(len(elems)-1))) {
		panic(runtimePanic(fmt.Sprintf("runtime error: index out of range [symbolic] with length %d", len(elems))))
	}
	return symElemPtr{elems, s}, true
}

func (p symElemPtr) idxConst(i int) *Term {
	if liaMode {
		return mkConst(IntSort, uint64(i))
	}
	return mkConst(p.idx.t.sort, uint64(i))
}

func (p symElemPtr) load() value {
	k, _ := kindOf(p.elems[0])
	n := len(p.elems)
	if !liaMode && n > 4 {
		// balanced decision tree over the index bits (in-range is in the pc)
		nbits := 0
		for (1 << uint(nbits)) < n {
			nbits++
		}
		var build func(base, bit int) *Term
		build = func(base, bit int) *Term {
			if base >= n {
				return nil
			}
			if bit < 0 {
				return lift(p.elems[base])
			}
			lo := build(base, bit-1)
			hi := build(base|(1<<uint(bit)), bit-1)
			if hi == nil {
				return lo
			}
			b := mkEq(mkExtract(p.idx.t, bit, bit), mkConst(BV(1), 1))
			return mkIte(b, hi, lo)
		}
		return mkval(build(0, nbits-1), k)
	}
	cur := lift(p.elems[n-1])
	for i := n - 2; i >= 0; i-- {
		cur = mkIte(mkEq(p.idx.t, p.idxConst(i)), lift(p.elems[i]), cur)
	}
	if liaMode && k != types.Bool {
		return mkval2(cur, k)
	}
	return mkval(cur, k)
}

func (p symElemPtr) store(v value) {
	k, _ := kindOf(p.elems[0])
	vt := lift(v)
	for i := range p.elems {
		t := mkIte(mkEq(p.idx.t, p.idxConst(i)), vt, lift(p.elems[i]))
		if liaMode && k != types.Bool {
			p.elems[i] = mkval2(t, k)
		} else {
			p.elems[i] = mkval(t, k)
		}
	}
}
