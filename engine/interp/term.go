package interp

// SMT term DAG: hash-consed, constant-folding, printed as SMT-LIB2.
//
// Sorts: Bool and (_ BitVec w), 1 <= w <= 64.  In "LIA mode" (Machine.lia)
// integer-typed Go values are instead represented by terms of sort Int with
// explicit wrap-around (see lia.go); both live in the same Term type.

import (
	"fmt"
	"math/big"
	"math/bits"
	"sort"
	"strconv"
	"strings"
)

type Op uint8

const (
	OpConst Op = iota // BV or Bool or Int constant
	OpVar
	OpNot
	OpAnd
	OpOr
	OpIte
	OpEq
	// bit-vector
	OpBvAdd
	OpBvSub
	OpBvMul
	OpBvUDiv
	OpBvURem
	OpBvSDiv
	OpBvSRem
	OpBvAnd
	OpBvOr
	OpBvXor
	OpBvNot
	OpBvNeg
	OpBvShl
	OpBvLshr
	OpBvAshr
	OpBvUlt
	OpBvUle
	OpBvSlt
	OpBvSle
	OpExtract // p1=hi p2=lo
	OpZext    // p1=extra bits
	OpSext    // p1=extra bits
	OpConcat
	// integers (LIA mode)
	OpIAdd
	OpISub
	OpIMul
	OpIDiv // SMT div (floor for positive divisor)
	OpIMod // SMT mod
	OpILt
	OpILe
	OpINeg
)

var opNames = map[Op]string{
	OpNot: "not", OpAnd: "and", OpOr: "or", OpIte: "ite", OpEq: "=",
	OpBvAdd: "bvadd", OpBvSub: "bvsub", OpBvMul: "bvmul", OpBvUDiv: "bvudiv", OpBvURem: "bvurem",
	OpBvSDiv: "bvsdiv", OpBvSRem: "bvsrem", OpBvAnd: "bvand", OpBvOr: "bvor", OpBvXor: "bvxor",
	OpBvNot: "bvnot", OpBvNeg: "bvneg", OpBvShl: "bvshl", OpBvLshr: "bvlshr", OpBvAshr: "bvashr",
	OpBvUlt: "bvult", OpBvUle: "bvule", OpBvSlt: "bvslt", OpBvSle: "bvsle", OpConcat: "concat",
	OpIAdd: "+", OpISub: "-", OpIMul: "*", OpIDiv: "div", OpIMod: "mod", OpILt: "<", OpILe: "<=", OpINeg: "-",
}

// Sort: W==0 => Bool; W>0 => BitVec W; W==-1 => Int.
type Sort struct{ W int }

var BoolSort = Sort{0}
var IntSort = Sort{-1}

func BV(w int) Sort { return Sort{w} }

func (s Sort) String() string {
	switch {
	case s.W == 0:
		return "Bool"
	case s.W < 0:
		return "Int"
	}
	return fmt.Sprintf("(_ BitVec %d)", s.W)
}

type Term struct {
	op     Op
	sort   Sort
	args   []*Term
	val    uint64 // constant value (masked to width); Bool: 0/1; Int: as int64 bits
	name   string // variable name
	p1, p2 int
	id     int
}

func (t *Term) Sort() Sort { return t.sort }
func (t *Term) IsConst() bool { return t.op == OpConst }
func (t *Term) ID() int { return t.id }

// TermStore hash-conses terms.  One store per process.
type TermStore struct {
	tab   map[string]*Term
	terms []*Term
	vars  map[string]*Term
}

func NewTermStore() *TermStore {
	return &TermStore{tab: make(map[string]*Term), vars: make(map[string]*Term)}
}

var ts = NewTermStore()

func mask(w int) uint64 {
	if w >= 64 {
		return ^uint64(0)
	}
	return (uint64(1) << uint(w)) - 1
}

func (s *TermStore) intern(t *Term) *Term {
	var b strings.Builder
	b.WriteByte(byte(t.op) + 'A')
	b.WriteString(strconv.Itoa(t.sort.W))
	switch t.op {
	case OpConst:
		b.WriteByte(':')
		b.WriteString(strconv.FormatUint(t.val, 16))
		b.WriteString(t.name)
	case OpVar:
		b.WriteByte(':')
		b.WriteString(t.name)
	default:
		if t.p1 != 0 || t.p2 != 0 {
			fmt.Fprintf(&b, ":%d:%d", t.p1, t.p2)
		}
		for _, a := range t.args {
			b.WriteByte(',')
			b.WriteString(strconv.Itoa(a.id))
		}
	}
	k := b.String()
	if old, ok := s.tab[k]; ok {
		return old
	}
	t.id = len(s.terms)
	s.terms = append(s.terms, t)
	s.tab[k] = t
	return t
}

// ---- constructors -------------------------------------------------------

func mkConst(sort Sort, v uint64) *Term {
	if sort.W > 0 {
		v &= mask(sort.W)
	} else if sort.W == 0 && v != 0 {
		v = 1
	}
	return ts.intern(&Term{op: OpConst, sort: sort, val: v})
}

func mkBool(b bool) *Term {
	if b {
		return mkConst(BoolSort, 1)
	}
	return mkConst(BoolSort, 0)
}

var (
	tTrue  = mkBool(true)
	tFalse = mkBool(false)
)

func mkVar(name string, sort Sort) *Term {
	t := ts.intern(&Term{op: OpVar, sort: sort, name: name})
	ts.vars[name] = t
	return t
}

func mk(op Op, sort Sort, args ...*Term) *Term {
	return ts.intern(&Term{op: op, sort: sort, args: args})
}

func mkP(op Op, sort Sort, p1, p2 int, args ...*Term) *Term {
	return ts.intern(&Term{op: op, sort: sort, args: args, p1: p1, p2: p2})
}

func isTrue(t *Term) bool  { return t.op == OpConst && t.sort.W == 0 && t.val == 1 }
func isFalse(t *Term) bool { return t.op == OpConst && t.sort.W == 0 && t.val == 0 }

func mkNot(a *Term) *Term {
	if a.op == OpConst {
		return mkBool(a.val == 0)
	}
	if a.op == OpNot {
		return a.args[0]
	}
	return mk(OpNot, BoolSort, a)
}

func mkAnd(as ...*Term) *Term {
	var out []*Term
	seen := map[int]bool{}
	for _, a := range as {
		if isFalse(a) {
			return tFalse
		}
		if isTrue(a) || seen[a.id] {
			continue
		}
		if a.op == OpAnd {
			for _, x := range a.args {
				if !seen[x.id] {
					seen[x.id] = true
					out = append(out, x)
				}
			}
			continue
		}
		seen[a.id] = true
		out = append(out, a)
	}
	for _, a := range out {
		if a.op == OpNot && seen[a.args[0].id] {
			return tFalse
		}
	}
	switch len(out) {
	case 0:
		return tTrue
	case 1:
		return out[0]
	}
	return mk(OpAnd, BoolSort, out...)
}

func mkOr(as ...*Term) *Term {
	var out []*Term
	seen := map[int]bool{}
	for _, a := range as {
		if isTrue(a) {
			return tTrue
		}
		if isFalse(a) || seen[a.id] {
			continue
		}
		if a.op == OpOr {
			for _, x := range a.args {
				if !seen[x.id] {
					seen[x.id] = true
					out = append(out, x)
				}
			}
			continue
		}
		seen[a.id] = true
		out = append(out, a)
	}
	for _, a := range out {
		if a.op == OpNot && seen[a.args[0].id] {
			return tTrue
		}
	}
	switch len(out) {
	case 0:
		return tFalse
	case 1:
		return out[0]
	}
	return mk(OpOr, BoolSort, out...)
}

func mkImplies(a, b *Term) *Term { return mkOr(mkNot(a), b) }

func mkIte(c, a, b *Term) *Term {
	if isTrue(c) {
		return a
	}
	if isFalse(c) {
		return b
	}
	if a == b {
		return a
	}
	if a.sort.W == 0 {
		if isTrue(a) && isFalse(b) {
			return c
		}
		if isFalse(a) && isTrue(b) {
			return mkNot(c)
		}
	}
	return mk(OpIte, a.sort, c, a, b)
}

func mkEq(a, b *Term) *Term {
	if a == b {
		return tTrue
	}
	if a.sort != b.sort {
		panic(fmt.Sprintf("mkEq: sort mismatch %v vs %v", a.sort, b.sort))
	}
	if a.op == OpConst && b.op == OpConst {
		return mkBool(a.val == b.val)
	}
	if a.sort.W == 0 {
		if a.op == OpConst {
			a, b = b, a
		}
		if isTrue(b) {
			return a
		}
		if isFalse(b) {
			return mkNot(a)
		}
	}
	// (= (zext x) const) where const does not fit => false ; else compare narrow
	if b.op == OpConst && a.op == OpZext {
		inner := a.args[0]
		if b.val&^mask(inner.sort.W) != 0 {
			return tFalse
		}
		return mkEq(inner, mkConst(inner.sort, b.val))
	}
	if a.op == OpConst && b.op == OpZext {
		return mkEq(b, a)
	}
	if a.id > b.id {
		a, b = b, a
	}
	return mk(OpEq, BoolSort, a, b)
}

func sext64(v uint64, w int) int64 {
	if w >= 64 {
		return int64(v)
	}
	sh := uint(64 - w)
	return int64(v<<sh) >> sh
}

// mkBv builds a binary bit-vector operation with constant folding.
func mkBv(op Op, a, b *Term) *Term {
	if a.sort != b.sort || a.sort.W <= 0 {
		panic(fmt.Sprintf("mkBv %s: sorts %v %v", opNames[op], a.sort, b.sort))
	}
	w := a.sort.W
	if a.op == OpConst && b.op == OpConst {
		x, y := a.val, b.val
		sx, sy := sext64(x, w), sext64(y, w)
		var r uint64
		switch op {
		case OpBvAdd:
			r = x + y
		case OpBvSub:
			r = x - y
		case OpBvMul:
			r = x * y
		case OpBvUDiv:
			if y == 0 {
				r = mask(w)
			} else {
				r = x / y
			}
		case OpBvURem:
			if y == 0 {
				r = x
			} else {
				r = x % y
			}
		case OpBvSDiv:
			if sy == 0 {
				if sx >= 0 {
					r = mask(w)
				} else {
					r = 1
				}
			} else if sy == -1 {
				r = uint64(-sx)
			} else {
				r = uint64(sx / sy)
			}
		case OpBvSRem:
			if sy == 0 {
				r = x
			} else if sy == -1 {
				r = 0
			} else {
				r = uint64(sx % sy)
			}
		case OpBvAnd:
			r = x & y
		case OpBvOr:
			r = x | y
		case OpBvXor:
			r = x ^ y
		case OpBvShl:
			if y >= uint64(w) {
				r = 0
			} else {
				r = x << y
			}
		case OpBvLshr:
			if y >= uint64(w) {
				r = 0
			} else {
				r = x >> y
			}
		case OpBvAshr:
			if y >= uint64(w) {
				if sx < 0 {
					r = mask(w)
				} else {
					r = 0
				}
			} else {
				r = uint64(sx >> y)
			}
		default:
			panic("mkBv fold")
		}
		return mkConst(a.sort, r)
	}
	// identities
	switch op {
	case OpBvAdd:
		if a.op == OpConst && a.val == 0 {
			return b
		}
		if b.op == OpConst && b.val == 0 {
			return a
		}
	case OpBvSub:
		if b.op == OpConst && b.val == 0 {
			return a
		}
		if a == b {
			return mkConst(a.sort, 0)
		}
	case OpBvMul:
		if a.op == OpConst && a.val == 1 {
			return b
		}
		if b.op == OpConst && b.val == 1 {
			return a
		}
		if (a.op == OpConst && a.val == 0) || (b.op == OpConst && b.val == 0) {
			return mkConst(a.sort, 0)
		}
	case OpBvAnd:
		if a == b {
			return a
		}
		if (a.op == OpConst && a.val == 0) || (b.op == OpConst && b.val == 0) {
			return mkConst(a.sort, 0)
		}
		if a.op == OpConst && a.val == mask(w) {
			return b
		}
		if b.op == OpConst && b.val == mask(w) {
			return a
		}
	case OpBvOr:
		if a == b {
			return a
		}
		if a.op == OpConst && a.val == 0 {
			return b
		}
		if b.op == OpConst && b.val == 0 {
			return a
		}
	case OpBvXor:
		if a == b {
			return mkConst(a.sort, 0)
		}
		if a.op == OpConst && a.val == 0 {
			return b
		}
		if b.op == OpConst && b.val == 0 {
			return a
		}
	case OpBvShl, OpBvLshr, OpBvAshr:
		if b.op == OpConst && b.val == 0 {
			return a
		}
	case OpBvUDiv, OpBvSDiv:
		if b.op == OpConst && b.val == 1 {
			return a
		}
	}
	return mk(op, a.sort, a, b)
}

func mkBvCmp(op Op, a, b *Term) *Term {
	if a.sort != b.sort || a.sort.W <= 0 {
		panic(fmt.Sprintf("mkBvCmp %s: sorts %v %v", opNames[op], a.sort, b.sort))
	}
	w := a.sort.W
	if a.op == OpConst && b.op == OpConst {
		x, y := a.val, b.val
		sx, sy := sext64(x, w), sext64(y, w)
		switch op {
		case OpBvUlt:
			return mkBool(x < y)
		case OpBvUle:
			return mkBool(x <= y)
		case OpBvSlt:
			return mkBool(sx < sy)
		case OpBvSle:
			return mkBool(sx <= sy)
		}
	}
	if a == b {
		return mkBool(op == OpBvUle || op == OpBvSle)
	}
	// zext'd operands against constants: compare at the narrow width.
	if a.op == OpZext && b.op == OpConst && (op == OpBvUlt || op == OpBvUle || sext64(b.val, w) >= 0) {
		in := a.args[0]
		if b.val&^mask(in.sort.W) != 0 { // const above range of a
			return tTrue
		}
		nop := op
		if op == OpBvSlt {
			nop = OpBvUlt
		} else if op == OpBvSle {
			nop = OpBvUle
		}
		return mkBvCmp(nop, in, mkConst(in.sort, b.val))
	}
	if b.op == OpZext && a.op == OpConst && (op == OpBvUlt || op == OpBvUle || sext64(a.val, w) >= 0) {
		in := b.args[0]
		if a.val&^mask(in.sort.W) != 0 {
			return tFalse
		}
		nop := op
		if op == OpBvSlt {
			nop = OpBvUlt
		} else if op == OpBvSle {
			nop = OpBvUle
		}
		return mkBvCmp(nop, mkConst(in.sort, a.val), in)
	}
	return mk(op, BoolSort, a, b)
}

func mkBvNot(a *Term) *Term {
	if a.op == OpConst {
		return mkConst(a.sort, ^a.val)
	}
	return mk(OpBvNot, a.sort, a)
}

func mkBvNeg(a *Term) *Term {
	if a.op == OpConst {
		return mkConst(a.sort, -a.val)
	}
	return mk(OpBvNeg, a.sort, a)
}

func mkExtract(a *Term, hi, lo int) *Term {
	w := hi - lo + 1
	if lo == 0 && w == a.sort.W {
		return a
	}
	if a.op == OpConst {
		return mkConst(BV(w), a.val>>uint(lo))
	}
	if (a.op == OpZext || a.op == OpSext) && hi < a.args[0].sort.W {
		return mkExtract(a.args[0], hi, lo)
	}
	if a.op == OpZext && lo >= a.args[0].sort.W {
		return mkConst(BV(w), 0)
	}
	if a.op == OpConcat {
		// args[0] is high part
		lw := a.args[1].sort.W
		if hi < lw {
			return mkExtract(a.args[1], hi, lo)
		}
		if lo >= lw {
			return mkExtract(a.args[0], hi-lw, lo-lw)
		}
	}
	return mkP(OpExtract, BV(w), hi, lo, a)
}

func mkZext(a *Term, to int) *Term {
	if to == a.sort.W {
		return a
	}
	if to < a.sort.W {
		return mkExtract(a, to-1, 0)
	}
	if a.op == OpConst {
		return mkConst(BV(to), a.val)
	}
	if a.op == OpZext {
		return mkZext(a.args[0], to)
	}
	return mkP(OpZext, BV(to), to-a.sort.W, 0, a)
}

func mkSext(a *Term, to int) *Term {
	if to == a.sort.W {
		return a
	}
	if to < a.sort.W {
		return mkExtract(a, to-1, 0)
	}
	if a.op == OpConst {
		return mkConst(BV(to), uint64(sext64(a.val, a.sort.W)))
	}
	if a.op == OpZext { // zero-extended value is non-negative
		return mkZext(a.args[0], to)
	}
	return mkP(OpSext, BV(to), to-a.sort.W, 0, a)
}

func mkConcat(hi, lo *Term) *Term {
	w := hi.sort.W + lo.sort.W
	if hi.op == OpConst && lo.op == OpConst {
		return mkConst(BV(w), hi.val<<uint(lo.sort.W)|lo.val)
	}
	if hi.op == OpConst && hi.val == 0 {
		return mkZext(lo, w)
	}
	return mk(OpConcat, BV(w), hi, lo)
}

// ---- printing ------------------------------------------------------------

func smtSym(name string) string {
	return "|" + strings.NewReplacer("|", "_", "\\", "_").Replace(name) + "|"
}

func (t *Term) leafString() string {
	switch t.op {
	case OpConst:
		switch {
		case t.sort.W == 0:
			if t.val != 0 {
				return "true"
			}
			return "false"
		case t.sort.W < 0:
			if t.name != "" {
				if t.name[0] == '-' {
					return "(- " + t.name[1:] + ")"
				}
				return t.name
			}
			v := int64(t.val)
			if v < 0 {
				// careful with MinInt64
				return "(- " + strconv.FormatUint(uint64(-(v+1))+1, 10) + ")"
			}
			return strconv.FormatInt(v, 10)
		case t.sort.W%4 == 0:
			return fmt.Sprintf("#x%0*x", t.sort.W/4, t.val)
		default:
			return fmt.Sprintf("#b%0*b", t.sort.W, t.val)
		}
	case OpVar:
		return smtSym(t.name)
	}
	return ""
}

// ref returns the name by which a term is referenced in solver input.
func (t *Term) ref() string {
	if s := t.leafString(); s != "" {
		return s
	}
	return "t" + strconv.Itoa(t.id)
}

// body prints the defining expression of a non-leaf term using refs for args.
func (t *Term) body() string {
	var b strings.Builder
	switch t.op {
	case OpExtract:
		fmt.Fprintf(&b, "((_ extract %d %d) %s)", t.p1, t.p2, t.args[0].ref())
		return b.String()
	case OpZext:
		fmt.Fprintf(&b, "((_ zero_extend %d) %s)", t.p1, t.args[0].ref())
		return b.String()
	case OpSext:
		fmt.Fprintf(&b, "((_ sign_extend %d) %s)", t.p1, t.args[0].ref())
		return b.String()
	}
	b.WriteByte('(')
	b.WriteString(opNames[t.op])
	for _, a := range t.args {
		b.WriteByte(' ')
		b.WriteString(a.ref())
	}
	b.WriteByte(')')
	return b.String()
}

// String prints the full expression tree (debugging / evidence samples).
func (t *Term) String() string {
	if s := t.leafString(); s != "" {
		return s
	}
	var b strings.Builder
	t.write(&b, 0)
	return b.String()
}

func (t *Term) write(b *strings.Builder, depth int) {
	if s := t.leafString(); s != "" {
		b.WriteString(s)
		return
	}
	if depth > 12 {
		b.WriteString("...")
		return
	}
	switch t.op {
	case OpExtract:
		fmt.Fprintf(b, "((_ extract %d %d) ", t.p1, t.p2)
	case OpZext:
		fmt.Fprintf(b, "((_ zero_extend %d) ", t.p1)
	case OpSext:
		fmt.Fprintf(b, "((_ sign_extend %d) ", t.p1)
	default:
		b.WriteByte('(')
		b.WriteString(opNames[t.op])
		b.WriteByte(' ')
	}
	for i, a := range t.args {
		if i > 0 {
			b.WriteByte(' ')
		}
		a.write(b, depth+1)
	}
	b.WriteByte(')')
}

// collectVars returns the variables occurring in the given terms (sorted by name).
func collectVars(roots ...*Term) []*Term {
	seen := map[int]bool{}
	var out []*Term
	var walk func(t *Term)
	walk = func(t *Term) {
		if seen[t.id] {
			return
		}
		seen[t.id] = true
		if t.op == OpVar {
			out = append(out, t)
		}
		for _, a := range t.args {
			walk(a)
		}
	}
	for _, r := range roots {
		walk(r)
	}
	sort.Slice(out, func(i, j int) bool { return out[i].name < out[j].name })
	return out
}

// ---- evaluation under a model ---------------------------------------------

// Model maps variable names to values: BV (masked) and Bool (0/1) in B,
// Int-sorted variables in I.
type Model struct {
	B map[string]uint64
	I map[string]*big.Int
}

func NewModel() *Model { return &Model{B: map[string]uint64{}, I: map[string]*big.Int{}} }

type evalMemo struct {
	b map[int]uint64
	i map[int]*big.Int
}

// evalI evaluates an Int-sorted term.
func (m *Model) evalI(t *Term, memo *evalMemo) *big.Int {
	if b, ok := intConstBig(t); ok {
		return b
	}
	if v, ok := memo.i[t.id]; ok {
		return v
	}
	var r *big.Int
	switch t.op {
	case OpVar:
		r = m.I[t.name]
		if r == nil {
			r = new(big.Int)
		}
	case OpIte:
		if m.eval(t.args[0], memo) != 0 {
			r = m.evalI(t.args[1], memo)
		} else {
			r = m.evalI(t.args[2], memo)
		}
	case OpINeg:
		r = new(big.Int).Neg(m.evalI(t.args[0], memo))
	default:
		a, b := m.evalI(t.args[0], memo), m.evalI(t.args[1], memo)
		r = new(big.Int)
		switch t.op {
		case OpIAdd:
			r.Add(a, b)
		case OpISub:
			r.Sub(a, b)
		case OpIMul:
			r.Mul(a, b)
		case OpIDiv:
			if b.Sign() != 0 {
				r.Div(a, b)
			}
		case OpIMod:
			if b.Sign() != 0 {
				r.Mod(a, b)
			}
		default:
			panic("evalI: unexpected op")
		}
	}
	memo.i[t.id] = r
	return r
}

// eval evaluates a Bool or BV term under m; variables missing from m evaluate to 0.
func (m *Model) eval(t *Term, memo *evalMemo) uint64 {
	if t.op == OpConst {
		return t.val
	}
	if v, ok := memo.b[t.id]; ok {
		return v
	}
	var r uint64
	switch t.op {
	case OpVar:
		r = m.B[t.name]
	case OpNot:
		r = 1 - m.eval(t.args[0], memo)
	case OpAnd:
		r = 1
		for _, a := range t.args {
			if m.eval(a, memo) == 0 {
				r = 0
				break
			}
		}
	case OpOr:
		r = 0
		for _, a := range t.args {
			if m.eval(a, memo) != 0 {
				r = 1
				break
			}
		}
	case OpIte:
		if m.eval(t.args[0], memo) != 0 {
			r = m.eval(t.args[1], memo)
		} else {
			r = m.eval(t.args[2], memo)
		}
	case OpEq:
		if t.args[0].sort.W < 0 {
			if m.evalI(t.args[0], memo).Cmp(m.evalI(t.args[1], memo)) == 0 {
				r = 1
			}
		} else if m.eval(t.args[0], memo) == m.eval(t.args[1], memo) {
			r = 1
		}
	case OpILt:
		if m.evalI(t.args[0], memo).Cmp(m.evalI(t.args[1], memo)) < 0 {
			r = 1
		}
	case OpILe:
		if m.evalI(t.args[0], memo).Cmp(m.evalI(t.args[1], memo)) <= 0 {
			r = 1
		}
	case OpBvNot:
		r = ^m.eval(t.args[0], memo) & mask(t.sort.W)
	case OpBvNeg:
		r = -m.eval(t.args[0], memo) & mask(t.sort.W)
	case OpExtract:
		r = (m.eval(t.args[0], memo) >> uint(t.p2)) & mask(t.sort.W)
	case OpZext:
		r = m.eval(t.args[0], memo)
	case OpSext:
		r = uint64(sext64(m.eval(t.args[0], memo), t.args[0].sort.W)) & mask(t.sort.W)
	case OpConcat:
		r = m.eval(t.args[0], memo)<<uint(t.args[1].sort.W) | m.eval(t.args[1], memo)
	case OpBvUlt, OpBvUle, OpBvSlt, OpBvSle:
		a := mkConst(t.args[0].sort, m.eval(t.args[0], memo))
		b := mkConst(t.args[1].sort, m.eval(t.args[1], memo))
		r = mkBvCmp(t.op, a, b).val
	default:
		a := mkConst(t.args[0].sort, m.eval(t.args[0], memo))
		b := mkConst(t.args[1].sort, m.eval(t.args[1], memo))
		r = mkBv(t.op, a, b).val
	}
	memo.b[t.id] = r
	return r
}

func newMemo() *evalMemo { return &evalMemo{b: map[int]uint64{}, i: map[int]*big.Int{}} }

// Eval returns the value of a Bool/BV term, or the low 64 bits (two's
// complement) of an Int term.
func (m *Model) Eval(t *Term) uint64 {
	if t.sort.W < 0 {
		v := m.evalI(t, newMemo())
		return bigBits(v)
	}
	return m.eval(t, newMemo())
}

func bigBits(v *big.Int) uint64 {
	if v.Sign() >= 0 {
		return new(big.Int).And(v, new(big.Int).SetUint64(^uint64(0))).Uint64()
	}
	return uint64(v.Int64())
}

func (m *Model) EvalBool(t *Term) bool { return m.Eval(t) != 0 }

var _ = bits.Len64
