package interp

import "go/types"

// mustDeref returns the element type of pointer type t (core type).
func mustDeref(t types.Type) types.Type {
	if p, ok := t.Underlying().(*types.Pointer); ok {
		return p.Elem()
	}
	panic("mustDeref: not a pointer: " + t.String())
}
