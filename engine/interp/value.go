// Copyright 2013 The Go Authors. All rights reserved.
// Use of this source code is governed by a BSD-style
// license that can be found in the LICENSE file.

package interp

// Values
//
// All interpreter values are "boxed" in the empty interface, value.
// The range of possible dynamic types within value are:
//
// - bool
// - numbers (all built-in int/float/complex types are distinguished)
// - string
// - map[value]value --- maps for which  usesBuiltinMap(keyType)
//   *hashmap        --- maps for which !usesBuiltinMap(keyType)
// - chan value
// - []value --- slices
// - iface --- interfaces.
// - structure --- structs.  Fields are ordered and accessed by numeric indices.
// - array --- arrays.
// - *value --- pointers.  Careful: *value is a distinct type from *array etc.
// - *ssa.Function \
//   *ssa.Builtin   } --- functions.  A nil 'func' is always of type *ssa.Function.
//   *closure      /
// - tuple --- as returned by Return, Next, "value,ok" modes, etc.
// - iter --- iterators from 'range' over map or string.
// - bad --- a poison pill for locals that have gone out of scope.
// - rtype -- the interpreter's concrete implementation of reflect.Type
// - **deferred -- the address of a frame's defer stack for a Defer._Stack.
//
// Note that nil is not on this list.
//
// Pay close attention to whether or not the dynamic type is a pointer.
// The compiler cannot help you since value is an empty interface.

import (
	"bytes"
	"fmt"
	"go/types"

	"golang.org/x/tools/go/ssa"
)

type value interface{}

type tuple []value

type array []value

type iface struct {
	t types.Type // never an "untyped" type
	v value
}

type structure []value

// For map, array, *array, slice, string or channel.
type iter interface {
	// next returns a Tuple (key, value, ok).
	// key and value are unaliased, e.g. copies of the sequence element.
	next() tuple
}

type closure struct {
	Fn  *ssa.Function
	Env []value
}

type bad struct{}


func (x array) eq(t types.Type, _y interface{}) bool {
	y := _y.(array)
	tElt := t.Underlying().(*types.Array).Elem()
	for i, xi := range x {
		if !equals(tElt, xi, y[i]) {
			return false
		}
	}
	return true
}


func (x structure) eq(t types.Type, _y interface{}) bool {
	y := _y.(structure)
	tStruct := t.Underlying().(*types.Struct)
	for i, n := 0, tStruct.NumFields(); i < n; i++ {
		if f := tStruct.Field(i); f.Name() != "_" {
			if !equals(f.Type(), x[i], y[i]) {
				return false
			}
		}
	}
	return true
}


// nil-tolerant variant of types.Identical.
func sameType(x, y types.Type) bool {
	if x == nil {
		return y == nil
	}
	return y != nil && types.Identical(x, y)
}

func (x iface) eq(t types.Type, _y interface{}) bool {
	y := _y.(iface)
	return sameType(x.t, y.t) && (x.t == nil || equals(x.t, x.v, y.v))
}




// equals returns true iff x and y are equal according to Go's
// linguistic equivalence relation for type t.
// In a well-typed program, the dynamic types of x and y are
// guaranteed equal.
func equals(t types.Type, x, y value) bool {
	switch x := x.(type) {
	case bool:
		return x == y.(bool)
	case int:
		return x == y.(int)
	case int8:
		return x == y.(int8)
	case int16:
		return x == y.(int16)
	case int32:
		return x == y.(int32)
	case int64:
		return x == y.(int64)
	case uint:
		return x == y.(uint)
	case uint8:
		return x == y.(uint8)
	case uint16:
		return x == y.(uint16)
	case uint32:
		return x == y.(uint32)
	case uint64:
		return x == y.(uint64)
	case uintptr:
		return x == y.(uintptr)
	case float32:
		return x == y.(float32)
	case float64:
		return x == y.(float64)
	case complex64:
		return x == y.(complex64)
	case complex128:
		return x == y.(complex128)
	case string:
		return x == y.(string)
	case *value:
		return x == y.(*value)
	case chan value:
		return x == y.(chan value)
	case *channel:
		yc, _ := y.(*channel)
		return x == yc
	case structure:
		return x.eq(t, y)
	case array:
		return x.eq(t, y)
	case iface:
		return x.eq(t, y)
	}

	// Since map, func and slice don't support comparison, this
	// case is only reachable if one of x or y is literally nil
	// (handled in eqnil) or via interface{} values.
	panic(fmt.Sprintf("comparing uncomparable type %s", t))
}

// reflect.Value struct values don't have a fixed shape, since the
// payload can be a scalar or an aggregate depending on the instance.
// So store (and load) can't simply use recursion over the shape of the
// rhs value, or the lhs, to copy the value; we need the static type
// information.  (We can't make reflect.Value a new basic data type
// because its "structness" is exposed to Go programs.)

// load returns the value of type T in *addr.
func load(T types.Type, addr *value) value {
	switch T := T.Underlying().(type) {
	case *types.Struct:
		v := (*addr).(structure)
		a := make(structure, len(v))
		for i := range a {
			a[i] = load(T.Field(i).Type(), &v[i])
		}
		return a
	case *types.Array:
		v := (*addr).(array)
		a := make(array, len(v))
		for i := range a {
			a[i] = load(T.Elem(), &v[i])
		}
		return a
	default:
		if RaceOn {
			raceRead(addr)
		}
		return *addr
	}
}

// store stores value v of type T into *addr.
func store(T types.Type, addr *value, v value) {
	switch T := T.Underlying().(type) {
	case *types.Struct:
		lhs := (*addr).(structure)
		rhs := v.(structure)
		for i := range lhs {
			store(T.Field(i).Type(), &lhs[i], rhs[i])
		}
	case *types.Array:
		lhs := (*addr).(array)
		rhs := v.(array)
		for i := range lhs {
			store(T.Elem(), &lhs[i], rhs[i])
		}
	default:
		if RaceOn {
			raceWrite(addr)
		}
		*addr = v
	}
}

// Prints in the style of built-in println.
// (More or less; in gc println is actually a compiler intrinsic and
// can distinguish println(1) from println(interface{}(1)).)
func writeValue(buf *bytes.Buffer, v value) {
	switch v := v.(type) {
	case nil, bool, int, int8, int16, int32, int64, uint, uint8, uint16, uint32, uint64, uintptr, float32, float64, complex64, complex128, string:
		fmt.Fprintf(buf, "%v", v)

	case *omap:
		buf.WriteString("map[")
		if v != nil {
			for i := range v.keys {
				if i > 0 {
					buf.WriteString(" ")
				}
				writeValue(buf, v.keys[i])
				buf.WriteString(":")
				writeValue(buf, v.vals[i])
			}
		}
		buf.WriteString("]")

	case sym:
		fmt.Fprintf(buf, "<sym %s>", v.t)

	case sstr:
		buf.WriteString("<sstr ")
		for _, e := range v.b {
			writeValue(buf, e)
			buf.WriteString(" ")
		}
		buf.WriteString(">")

	case chan value:
		fmt.Fprintf(buf, "%v", v) // (an address)

	case *value:
		if v == nil {
			buf.WriteString("<nil>")
		} else {
			fmt.Fprintf(buf, "%p", v)
		}

	case iface:
		fmt.Fprintf(buf, "(%s, ", v.t)
		writeValue(buf, v.v)
		buf.WriteString(")")

	case structure:
		buf.WriteString("{")
		for i, e := range v {
			if i > 0 {
				buf.WriteString(" ")
			}
			writeValue(buf, e)
		}
		buf.WriteString("}")

	case array:
		buf.WriteString("[")
		for i, e := range v {
			if i > 0 {
				buf.WriteString(" ")
			}
			writeValue(buf, e)
		}
		buf.WriteString("]")

	case []value:
		buf.WriteString("[")
		for i, e := range v {
			if i > 0 {
				buf.WriteString(" ")
			}
			writeValue(buf, e)
		}
		buf.WriteString("]")

	case *ssa.Function, *ssa.Builtin, *closure:
		fmt.Fprintf(buf, "%p", v) // (an address)

	case tuple:
		// Unreachable in well-formed Go programs
		buf.WriteString("(")
		for i, e := range v {
			if i > 0 {
				buf.WriteString(", ")
			}
			writeValue(buf, e)
		}
		buf.WriteString(")")

	default:
		fmt.Fprintf(buf, "<%T>", v)
	}
}

// Implements printing of Go values in the style of built-in println.
func toString(v value) string {
	var b bytes.Buffer
	writeValue(&b, v)
	return b.String()
}

