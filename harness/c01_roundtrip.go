package connect

import (
	"context"
	"errors"
	"io"
	"net/http"
)

// C01 - every message sent is received intact, in order, exactly once.

func c01Messages() [][]byte {
	k := bound("msgs", 2, 3)
	n := nondetChoice("k", k+1)
	var msgs [][]byte
	for i := 0; i < n; i++ {
		msgs = append(msgs, nondetBytes("msg", bound("msgLen", 2, 3)))
	}
	return msgs
}

// c01Send pushes the messages through the real envelope writer.
func c01Send(msgs [][]byte, pool *compressionPool, minBytes int, bp *bufferPool) []byte {
	sink := &byteSink{}
	ew := envelopeWriter{writer: sink, codec: &byteCodec{}, bufferPool: bp, compressionPool: pool, compressMinBytes: minBytes}
	for i := range msgs {
		m := msgs[i]
		if err := ew.Marshal(&m); err != nil {
			check(false, "sending to a healthy transport succeeds")
		}
	}
	return sink.b
}

// HarnessC01HandlerStream: client -> handler direction through the typed
// ClientStream wrapper, which reuses one message holder.
//
//verif:harness property=C01
func HarnessC01HandlerStream() {
	msgs := c01Messages()
	bp := newBufferPool()
	var pool *compressionPool
	minBytes := 0
	if nondetBool("compress") {
		pool = newXorPool()
		minBytes = nondetInt("minBytes")
		assume(minBytes >= 0 && minBytes <= 3)
	}
	body := c01Send(msgs, pool, minBytes, bp)
	src := &wholeReader{data: body}
	req := &http.Request{Body: io.NopCloser(src), Header: make(http.Header)}
	er := envelopeReader{reader: src, codec: &byteCodec{}, bufferPool: bp, compressionPool: pool}
	var inner handlerConnCloser
	if nondetChoice("proto", 2) == 0 {
		inner = &connectStreamingHandlerConn{request: req, unmarshaler: connectStreamingUnmarshaler{envelopeReader: er}, responseTrailer: make(http.Header)}
	} else {
		inner = &grpcHandlerConn{request: req, bufferPool: bp, unmarshaler: grpcUnmarshaler{envelopeReader: er}, responseHeader: make(http.Header), responseTrailer: make(http.Header)}
	}
	stream := &ClientStream[[]byte]{conn: wrapHandlerConnWithCodedErrors(inner)}
	for i := range msgs {
		ok := stream.Receive()
		check(ok, "every message sent is received")
		if !ok {
			return
		}
		check(bytesEq(*stream.Msg(), msgs[i]), "the i-th message received equals the i-th message sent")
	}
	check(!stream.Receive(), "no message is received twice or invented")
	check(stream.Err() == nil, "the stream ends cleanly after the last message")
}

// HarnessC01ClientStream: handler -> client direction through
// ServerStreamForClient (Connect streaming with end-of-stream envelope, or
// gRPC with trailers).
//
//verif:harness property=C01 stubs=json,wire
func HarnessC01ClientStream() {
	msgs := c01Messages()
	bp := newBufferPool()
	var pool *compressionPool
	minBytes := 0
	if nondetBool("compress") {
		pool = newXorPool()
		minBytes = nondetInt("minBytes")
		assume(minBytes >= 0 && minBytes <= 3)
	}
	proto := nondetChoice("proto", 2)
	sink := &byteSink{}
	ew := envelopeWriter{writer: sink, codec: &byteCodec{}, bufferPool: bp, compressionPool: pool, compressMinBytes: minBytes}
	for i := range msgs {
		m := msgs[i]
		if err := ew.Marshal(&m); err != nil {
			check(false, "sending to a healthy transport succeeds")
		}
	}
	trailer := make(http.Header)
	if proto == 0 {
		cm := connectStreamingMarshaler{envelopeWriter: ew}
		if err := cm.MarshalEndStream(nil, make(http.Header)); err != nil {
			check(false, "writing the end-of-stream envelope succeeds")
		}
	} else {
		trailer[grpcHeaderStatus] = []string{"0"}
	}
	// the receiving side is the real client, through the public API
	header := http.Header{"Content-Type": {[]string{"application/connect+proto", "application/grpc+proto"}[proto]}}
	if pool != nil {
		header.Set([]string{connectStreamingHeaderCompression, grpcHeaderCompression}[proto], "gzip")
	}
	resp := &http.Response{StatusCode: 200, Status: "200 OK", ProtoMajor: 2, Header: header, Trailer: trailer, Body: io.NopCloser(&wholeReader{data: sink.b})}
	client := NewClient[[]byte, []byte](&cannedTransport{resp: resp}, stackURL, stackClientOptions(proto, c08XorClient("gzip"))...)
	in := []byte{1}
	stream, serr := client.CallServerStream(context.Background(), NewRequest(&in))
	check(serr == nil, "starting the stream succeeds")
	if serr != nil {
		return
	}
	for i := range msgs {
		ok := stream.Receive()
		check(ok, "every message sent is received")
		if !ok {
			return
		}
		check(bytesEq(*stream.Msg(), msgs[i]), "the i-th message received equals the i-th message sent")
	}
	check(!stream.Receive(), "no message is received twice or invented")
	check(stream.Err() == nil, "the stream ends cleanly after the last message")
}

// HarnessC01Unary: unary Connect body round trip (marshaler -> unmarshaler),
// with and without compression around the threshold.
//
//verif:harness property=C01
func HarnessC01Unary() {
	msg := nondetBytes("msg", bound("msgLen", 3, 4))
	bp := newBufferPool()
	var pool *compressionPool
	minBytes := 0
	if nondetBool("compress") {
		pool = newXorPool()
		minBytes = nondetInt("minBytes")
		assume(minBytes >= 0 && minBytes <= 4)
	}
	sink := &byteSink{}
	hdr := make(http.Header)
	um := connectUnaryMarshaler{writer: sink, codec: &byteCodec{}, bufferPool: bp, compressionPool: pool, compressionName: "xor", compressMinBytes: minBytes, header: hdr}
	m := msg
	if err := um.Marshal(&m); err != nil {
		check(false, "sending to a healthy transport succeeds")
		return
	}
	// the receiver decompresses iff the Content-Encoding header was set
	var rpool *compressionPool
	if hdr.Get(connectUnaryHeaderCompression) != "" {
		rpool = pool
	}
	uu := connectUnaryUnmarshaler{reader: &wholeReader{data: sink.b}, codec: &byteCodec{}, bufferPool: bp, compressionPool: rpool}
	var got []byte
	err := uu.Unmarshal(&got)
	check(err == nil, "the unary message is received")
	if err == nil {
		check(bytesEq(got, msg), "the unary message received equals the message sent")
	}
	var again []byte
	err2 := uu.Unmarshal(&again)
	check(err2 != nil && errors.Is(err2, io.EOF), "a unary body yields exactly one message, then a clean end")
}

// HarnessC01PoolSeedBoundary: message sizes straddling the 512-byte seed of
// the buffer pool (and the envelope prefix arithmetic around it): one message
// of L symbolic bytes, L case-split over 500..520, followed by a zero-valued
// and a one-byte message, in both framings.
//
//verif:harness property=C01 stubs=json,wire maxconc=32
func HarnessC01PoolSeedBoundary() {
	L := nondetInt("L")
	lo := bound("sizeLo", 505, 500)
	hi := bound("sizeHi", 515, 524)
	assume(L >= lo && L <= hi)
	big := nondetBytesN("big", L)
	msgs := [][]byte{big, {}, nondetBytesN("small", 1)}
	bp := newBufferPool()
	body := c01Send(msgs, nil, 0, bp)
	check(len(body) == 5+L+5+5+1, "every message is framed with a 5-byte prefix and its exact payload")
	src := &wholeReader{data: body}
	req := &http.Request{Body: io.NopCloser(src), Header: make(http.Header)}
	er := envelopeReader{reader: src, codec: &byteCodec{}, bufferPool: bp}
	var inner handlerConnCloser
	if nondetChoice("proto", 2) == 0 {
		inner = &connectStreamingHandlerConn{request: req, unmarshaler: connectStreamingUnmarshaler{envelopeReader: er}, responseTrailer: make(http.Header)}
	} else {
		inner = &grpcHandlerConn{request: req, bufferPool: bp, unmarshaler: grpcUnmarshaler{envelopeReader: er}, responseHeader: make(http.Header), responseTrailer: make(http.Header)}
	}
	stream := &ClientStream[[]byte]{conn: wrapHandlerConnWithCodedErrors(inner)}
	for i := range msgs {
		ok := stream.Receive()
		check(ok, "every message sent is received")
		if !ok {
			return
		}
		check(bytesEq(*stream.Msg(), msgs[i]), "the i-th message received equals the i-th message sent")
	}
	check(!stream.Receive() && stream.Err() == nil, "the stream ends cleanly after the last message")
}

// HarnessC01BidiFullStack: the whole stack in both directions at once: a
// real client's bidirectional stream over the full-duplex transport model
// (duplex.go) to a real handler that answers every message with a copy.
// Symbolic message count and contents (empty messages anywhere), optional
// compression in both directions with a symbolic compress-min-bytes.  The
// handler must see exactly the sequence sent, the client exactly the
// sequence of copies, each followed by a clean end.
//
//verif:harness property=C01 stubs=json,wire shard=proto:3
func HarnessC01BidiFullStack() {
	proto := nondetChoice("proto", 3)
	msgs := c01Messages()
	compress := nondetBool("compress")
	minBytes := 1 << 20
	if compress {
		minBytes = nondetInt("minBytes")
		assume(minBytes >= 0 && minBytes <= 2)
	}
	var seen [][]byte
	handlerEnd := false
	handler := NewBidiStreamHandler("/pkg.Svc/Method", func(_ context.Context, s *BidiStream[[]byte, []byte]) error {
		for {
			m, err := s.Receive()
			if err != nil {
				if errors.Is(err, io.EOF) {
					handlerEnd = true
					return nil
				}
				return err
			}
			seen = append(seen, append([]byte{}, *m...))
			out := append([]byte{}, *m...)
			if err := s.Send(&out); err != nil {
				return err
			}
		}
	}, c01HandlerOptions(minBytes)...)
	copts := []ClientOption{WithCodec(&stackCodec{}), WithCompressMinBytes(minBytes), c08XorClient("gzip")}
	if compress {
		copts = append(copts, WithSendCompression("gzip"))
	}
	switch proto {
	case 1:
		copts = append(copts, WithGRPC())
	case 2:
		copts = append(copts, WithGRPCWeb())
	}
	client := NewClient[[]byte, []byte](&duplexTransport{handler: handler}, stackURL, copts...)
	stream := client.CallBidiStream(context.Background())
	var got [][]byte
	for _, m := range msgs {
		in := append([]byte{}, m...)
		check(stream.Send(&in) == nil, "sending succeeds")
		r, err := stream.Receive()
		check(err == nil, "the copy of each message arrives")
		if err != nil {
			return
		}
		got = append(got, append([]byte{}, *r...))
	}
	check(stream.CloseRequest() == nil, "closing the request side succeeds")
	_, err := stream.Receive()
	check(errors.Is(err, io.EOF), "the response stream ends cleanly after the last copy")
	check(handlerEnd, "the handler saw a clean end of the request stream")
	check(len(seen) == len(msgs) && len(got) == len(msgs), "same count in both directions")
	for i := range msgs {
		if i < len(seen) {
			check(bytesEq(seen[i], msgs[i]), "the handler receives each message intact and in order")
		}
		if i < len(got) {
			check(bytesEq(got[i], msgs[i]), "the client receives each copy intact and in order")
		}
	}
	_ = stream.CloseResponse()
}

// c01HandlerOptions: the handler may support an algorithm the client lacks
// and whose name is contained in one the client accepts ("zip" in "gzip"):
// both sides must still be able to decode what the other sends.
func c01HandlerOptions(minBytes int) []HandlerOption {
	opts := []HandlerOption{WithCodec(&stackCodec{}), WithCompressMinBytes(minBytes), c08XorHandler("gzip")}
	if nondetBool("handlerAlsoHasZip") {
		opts = append(opts, c08XorHandler("zip"))
	}
	return opts
}
