package connect

import (
	"context"
	"errors"
)

// C02 - handler errors reach the client with code, message and metadata.

// HarnessC02UnaryError: a unary handler returns an error with a symbolic code
// in 1..16 and a symbolic message; the real client (all three protocols)
// must observe the same code and message, never success.
//
//verif:harness property=C02 stubs=json,wire
func HarnessC02UnaryError() {
	proto := nondetChoice("proto", 3)
	code := Code(nondetUint32("code"))
	assume(code >= 1 && code <= 16)
	msg := nondetString("message", bound("msgLen", 2, 3))
	handler := NewUnaryHandler(
		"/pkg.Svc/Method",
		func(ctx context.Context, req *Request[[]byte]) (*Response[[]byte], error) {
			e := NewError(code, errors.New(msg))
			e.Meta().Set("X-Err-Meta", "m1")
			return nil, e
		},
		stackHandlerOptions()...,
	)
	tr := &stackTransport{handler: handler}
	client := NewClient[[]byte, []byte](tr, stackURL, stackClientOptions(proto)...)
	in := []byte{1}
	res, err := client.CallUnary(context.Background(), NewRequest(&in))
	check(err != nil && res == nil, "an error returned by the handler is never delivered as success")
	if err == nil {
		return
	}
	ce, ok := asError(err)
	check(ok, "the client error is a *connect.Error")
	if !ok {
		return
	}
	check(ce.Code() == code, "the client observes the code the handler returned")
	check(ce.Message() == msg, "the client observes the message the handler returned, byte for byte")
	check(ce.Meta().Get("X-Err-Meta") == "m1", "error metadata reaches the client")
	if proto == 0 {
		check(tr.rec.status < 200 || tr.rec.status > 299, "a failed unary Connect call has a non-2xx HTTP status")
		check(tr.rec.status == connectCodeToHTTP(code), "the HTTP status is the one assigned to the code")
	} else {
		check(tr.rec.status == 200, "gRPC and gRPC-Web responses are HTTP 200")
	}
}
