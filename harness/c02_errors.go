package connect

import (
	"context"
	"errors"
)

// C02 - handler errors reach the client with code, message and metadata.
// Full stack: real NewUnaryHandler/NewServerStreamHandler <- stub transport
// <- real NewClient, for Connect, gRPC and gRPC-Web.

func c02CheckError(err error, code Code, msg string, metaKey, metaVal string) {
	ce, ok := asError(err)
	check(ok, "the client error is a *connect.Error")
	if !ok {
		return
	}
	check(ce.Code() == code, "the client observes the code the handler returned")
	check(ce.Message() == msg, "the client observes the message the handler returned, byte for byte")
	if metaKey != "" {
		check(ce.Meta().Get(metaKey) == metaVal, "error metadata reaches the client")
	}
}

// c02AddMulti attaches three values under one key of the error's metadata.
func c02AddMulti(e *Error) []string {
	vals := []string{"first", c11Val("multi", 1), "third"}
	for _, v := range vals {
		e.Meta().Add("X-Err-Multi", v)
	}
	return vals
}

func c02CheckMulti(err error, vals []string) {
	if ce, ok := asError(err); ok {
		check(sameValues(ce.Meta().Values("X-Err-Multi"), vals...), "every value of a multi-valued error metadata key reaches the client, in order")
	}
}

func c02UnaryCall(proto int, herr error) (*stackTransport, error) {
	handler := NewUnaryHandler(
		"/pkg.Svc/Method",
		func(ctx context.Context, req *Request[[]byte]) (*Response[[]byte], error) {
			return nil, herr
		},
		stackHandlerOptions()...,
	)
	tr := &stackTransport{handler: handler}
	client := NewClient[[]byte, []byte](tr, stackURL, stackClientOptions(proto)...)
	in := []byte{1}
	res, err := client.CallUnary(context.Background(), NewRequest(&in))
	check(err != nil && res == nil, "an error returned by the handler is never delivered as success")
	return tr, err
}

func c02CheckStatus(proto int, tr *stackTransport, code Code) {
	if proto == 0 {
		check(tr.rec.status < 200 || tr.rec.status > 299, "a failed unary Connect call has a non-2xx HTTP status")
		check(tr.rec.status == connectCodeToHTTP(code), "the HTTP status is the one assigned to the code")
	} else {
		check(tr.rec.status == 200, "gRPC and gRPC-Web responses are HTTP 200")
	}
}

// HarnessC02UnaryCode: every code 1..16 (one symbolic value) survives the
// unary error path of each protocol, with metadata.
//
//verif:harness property=C02 stubs=json,wire shard=proto:3
func HarnessC02UnaryCode() {
	proto := nondetChoice("proto", 3)
	code := Code(nondetUint32("code"))
	assume(code >= 1 && code <= 16)
	e := NewError(code, errors.New("boom %1"))
	e.Meta().Set("X-Err-Meta", "m1")
	multi := c02AddMulti(e)
	tr, err := c02UnaryCall(proto, e)
	if err == nil {
		return
	}
	c02CheckError(err, code, "boom %1", "X-Err-Meta", "m1")
	c02CheckMulti(err, multi)
	c02CheckStatus(proto, tr, code)
}

// HarnessC02UnaryMessage: every message (all byte values up to the bound:
// NUL, control characters, '%', CR/LF, blanks, non-ASCII) survives.
//
//verif:harness property=C02 stubs=json,wire shard=proto:3 cross=z3-new
func HarnessC02UnaryMessage() {
	proto := nondetChoice("proto", 3)
	msg := nondetString("message", bound("msgLen", 2, 3))
	e := NewError(CodeResourceExhausted, errors.New(msg))
	tr, err := c02UnaryCall(proto, e)
	if err == nil {
		return
	}
	c02CheckError(err, CodeResourceExhausted, msg, "", "")
	c02CheckStatus(proto, tr, CodeResourceExhausted)
}

// HarnessC02Uncoded: a plain Go error arrives as code unknown with its text.
//
//verif:harness property=C02 stubs=json,wire shard=proto:3 cross=z3-new
func HarnessC02Uncoded() {
	proto := nondetChoice("proto", 3)
	msg := nondetString("message", bound("msgLen", 2, 2))
	_, err := c02UnaryCall(proto, errors.New(msg))
	if err == nil {
		return
	}
	c02CheckError(err, CodeUnknown, msg, "", "")
}

// HarnessC02StreamError: a server-streaming handler sends k messages and then
// fails; the client receives the k messages and then exactly that error,
// whether or not response messages were already sent.
//
//verif:harness property=C02 stubs=json,wire shard=proto:3
func HarnessC02StreamError() {
	proto := nondetChoice("proto", 3)
	k := nondetChoice("sent", bound("sent", 2, 3))
	code := Code(nondetUint32("code"))
	assume(code >= 1 && code <= 16)
	var multi []string
	handler := NewServerStreamHandler(
		"/pkg.Svc/Method",
		func(ctx context.Context, req *Request[[]byte], stream *ServerStream[[]byte]) error {
			for i := 0; i < k; i++ {
				m := []byte{byte(0x30 + i)}
				if err := stream.Send(&m); err != nil {
					return err
				}
			}
			e := NewError(code, errors.New("late"))
			e.Meta().Set("X-Err-Meta", "m2")
			multi = c02AddMulti(e)
			return e
		},
		stackHandlerOptions()...,
	)
	tr := &stackTransport{handler: handler}
	client := NewClient[[]byte, []byte](tr, stackURL, stackClientOptions(proto)...)
	in := []byte{1}
	stream, err := client.CallServerStream(context.Background(), NewRequest(&in))
	check(err == nil, "starting the stream succeeds")
	if err != nil {
		return
	}
	got := 0
	for stream.Receive() {
		check(got < k && len(*stream.Msg()) == 1 && (*stream.Msg())[0] == byte(0x30+got), "messages sent before the error arrive intact and in order")
		got++
		if got > k+1 {
			break
		}
	}
	check(got == k, "all messages sent before the error are delivered")
	serr := stream.Err()
	check(serr != nil, "an error returned after sending messages is never delivered as success")
	if serr != nil {
		c02CheckError(serr, code, "late", "X-Err-Meta", "m2")
		c02CheckMulti(serr, multi)
	}
	check(tr.rec.status == 200, "streaming responses are HTTP 200")
	_ = stream.Close()
}

// HarnessC02CodedErrorWrappingContext: a handler error that carries its own
// code but whose cause wraps a context sentinel keeps its code, message and
// metadata (only uncoded context errors are classified by the library).
//
//verif:harness property=C02 stubs=json,wire shard=proto:3
func HarnessC02CodedErrorWrappingContext() {
	proto := nondetChoice("proto", 3)
	code := Code(nondetUint32("code"))
	assume(code >= 1 && code <= 16)
	cause := context.Canceled
	if nondetBool("deadline") {
		cause = context.DeadlineExceeded
	}
	e := NewError(code, &c15URLError{cause})
	e.Meta().Set("X-Err-Meta", "m3")
	_, err := c02UnaryCall(proto, e)
	if err == nil {
		return
	}
	c02CheckError(err, code, e.Message(), "X-Err-Meta", "m3")
}

// c02Wrapper wraps an error the way fmt.Errorf("...: %w", err) does.
type c02Wrapper struct {
	prefix string
	err    error
}

func (w *c02Wrapper) Error() string { return w.prefix + ": " + w.err.Error() }
func (w *c02Wrapper) Unwrap() error { return w.err }

// HarnessC02WrappedCodedError: a handler (or an interceptor on its way out)
// returns a coded error wrapped in another error.  The coded error inside is
// what the handler meant: its code, message and metadata must reach the
// client - unary and streaming, three protocols - not "unknown" with the
// wrapper's text.
//
//verif:harness property=C02 stubs=json,wire shard=proto:3
func HarnessC02WrappedCodedError() {
	proto := nondetChoice("proto", 3)
	code := Code(nondetUint32("code"))
	assume(code >= 1 && code <= 16)
	inner := NewError(code, errors.New("inner"))
	inner.Meta().Set("X-Err-Meta", "m4")
	var herr error = &c02Wrapper{prefix: "audit", err: inner}
	if nondetBool("twice") {
		herr = &c02Wrapper{prefix: "outer", err: herr}
	}
	if nondetBool("stream") {
		handler := NewServerStreamHandler("/pkg.Svc/Method", func(ctx context.Context, req *Request[[]byte], stream *ServerStream[[]byte]) error {
			return herr
		}, stackHandlerOptions()...)
		client := NewClient[[]byte, []byte](&stackTransport{handler: handler}, stackURL, stackClientOptions(proto)...)
		in := []byte{1}
		stream, err := client.CallServerStream(context.Background(), NewRequest(&in))
		check(err == nil, "starting the stream succeeds")
		if err != nil {
			return
		}
		for stream.Receive() {
			check(false, "no message was sent")
			break
		}
		serr := stream.Err()
		check(serr != nil, "the stream fails")
		if serr != nil {
			c02CheckError(serr, code, "inner", "X-Err-Meta", "m4")
		}
		_ = stream.Close()
		return
	}
	tr, err := c02UnaryCall(proto, herr)
	if err == nil {
		return
	}
	c02CheckError(err, code, "inner", "X-Err-Meta", "m4")
	c02CheckStatus(proto, tr, code)
}
