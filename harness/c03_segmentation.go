package connect

import (
	"context"
	"errors"
	"io"
	"net/http"
)

// C03 - decoding does not depend on how the transport segments the bytes.

// outcome of decoding a stream with the real envelopeReader.
type decodeOutcome struct {
	msgs      [][]byte
	code      Code
	eof       bool // terminal error wraps io.EOF
	special   bool // terminal error is errSpecialEnvelope
	lastFlags uint8
	lastData  []byte
	calls     int
}

// decodeStream runs envelopeReader.Unmarshal until it fails (at most max calls).
func decodeStream(r io.Reader, max int, readMax int, pool *compressionPool) decodeOutcome {
	er := &envelopeReader{reader: r, codec: &byteCodec{}, bufferPool: newBufferPool(), readMaxBytes: readMax, compressionPool: pool}
	var out decodeOutcome
	for out.calls < max {
		out.calls++
		var m []byte
		err := er.Unmarshal(&m)
		if err == nil {
			out.msgs = append(out.msgs, append([]byte{}, m...))
			continue
		}
		out.code = err.Code()
		out.eof = errors.Is(err, io.EOF)
		out.special = errors.Is(err, errSpecialEnvelope)
		if out.special {
			out.lastFlags = er.last.Flags
			out.lastData = append([]byte{}, er.last.Data.Bytes()...)
		}
		return out
	}
	return out
}

func sameOutcome(a, b decodeOutcome) bool {
	if len(a.msgs) != len(b.msgs) || a.code != b.code || a.eof != b.eof || a.special != b.special {
		return false
	}
	for i := range a.msgs {
		if !bytesEq(a.msgs[i], b.msgs[i]) {
			return false
		}
	}
	if a.special && (a.lastFlags != b.lastFlags || !bytesEq(a.lastData, b.lastData)) {
		return false
	}
	return true
}

// smallDeclaredSizes restricts every complete 5-byte prefix in the stream to
// declare at most max bytes: the stream is otherwise arbitrary (flags,
// payload bytes, truncation anywhere).
func assumeFirstPrefixSmall(stream []byte, max int) {
	if len(stream) >= 5 {
		assume(stream[1] == 0 && stream[2] == 0 && stream[3] == 0 && int(stream[4]) <= max)
	}
}

// HarnessC03Envelope: an arbitrary byte string (valid frames, bad flags,
// truncated prefixes and payloads) is decoded by the real envelopeReader once
// in one piece and once through chunkReader; the outcomes must agree.
//
//verif:harness property=C03
func HarnessC03Envelope() {
	L := bound("streamLen", 7, 8)
	stream := nondetBytes("stream", L)
	assumeFirstPrefixSmall(stream, L)
	// a second frame, if any, starts after the first one's payload
	if len(stream) >= 5 {
		off := 5 + int(stream[4])
		if len(stream) >= off+5 {
			assume(stream[off+1] == 0 && stream[off+2] == 0 && stream[off+3] == 0 && int(stream[off+4]) <= L)
		}
	}
	whole := decodeStream(&wholeReader{data: stream}, 4, 0, nil)
	eofWithLast := nondetBool("eofWithLast")
	chunked := decodeStream(&chunkReader{data: stream, eofWithLast: eofWithLast}, 4, 0, nil)
	check(len(whole.msgs) == len(chunked.msgs), "segmentation does not change the number of messages")
	check(whole.code == chunked.code && whole.eof == chunked.eof && whole.special == chunked.special, "segmentation does not change the terminal error")
	check(sameOutcome(whole, chunked), "segmentation does not change the decoded outcome")
}

// HarnessC03Unary: the unary body (everything up to EOF) decodes to the same
// message however it is segmented.
//
//verif:harness property=C03
func HarnessC03Unary() {
	body := nondetBytes("body", bound("bodyLen", 4, 6))
	readMax := nondetChoice("readMax", 2) * 3 // unlimited or 3
	run := func(r io.Reader) ([]byte, *Error) {
		u := &connectUnaryUnmarshaler{reader: r, codec: &byteCodec{}, bufferPool: newBufferPool(), readMaxBytes: readMax}
		var m []byte
		err := u.Unmarshal(&m)
		return m, err
	}
	m1, e1 := run(&wholeReader{data: body})
	m2, e2 := run(&chunkReader{data: body, eofWithLast: nondetBool("eofWithLast")})
	check((e1 == nil) == (e2 == nil), "segmentation does not change whether the unary body is accepted")
	if e1 == nil && e2 == nil {
		check(bytesEq(m1, m2), "segmentation does not change the unary message")
		check(bytesEq(m1, body), "the unary message is the body")
	}
	if e1 != nil && e2 != nil {
		check(e1.Code() == e2.Code(), "segmentation does not change the unary error code")
	}
}

type readResult struct {
	n   int
	eof bool
	err bool
}

// HarnessC03DuplexPassthrough: duplexHTTPCall.Read hands through exactly what
// the response body's Read returned.
//
//verif:harness property=C03
func HarnessC03DuplexPassthrough() {
	data := nondetBytes("data", bound("dataLen", 3, 5))
	ready := make(chan struct{})
	close(ready)
	src := &chunkReader{data: data, eofWithLast: nondetBool("eofWithLast")}
	d := &duplexHTTPCall{
		ctx:           context.Background(),
		responseReady: ready,
		response:      &http.Response{Body: io.NopCloser(src)},
		// every call shape reads its response through this method
		streamType: []StreamType{StreamTypeUnary, StreamTypeClient, StreamTypeServer, StreamTypeBidi}[nondetChoice("streamType", 4)],
	}
	// (SetError closes the request pipe: give it one)
	d.requestBodyReader, d.requestBodyWriter = io.Pipe()
	var got []byte
	buf := make([]byte, 4)
	for i := 0; i < len(data)+2; i++ {
		before := src.pos
		n, err := d.Read(buf)
		check(n == src.pos-before, "duplex Read returns the byte count of the body's Read")
		got = append(got, buf[:n]...)
		if err != nil {
			check(err == io.EOF, "duplex Read passes end-of-file through unchanged")
			check(src.pos == len(data), "end-of-file is reported only after all bytes")
			break
		}
	}
	check(bytesEq(got, data), "duplex Read delivers the body bytes unchanged")
}

// splitReader delivers data in two reads, split at `at`, then end-of-file
// (with the last bytes or separately).
type splitReader struct {
	data        []byte
	at          int
	pos         int
	eofWithLast bool
}

func (r *splitReader) Read(p []byte) (int, error) {
	if r.pos >= len(r.data) {
		return 0, errEOF()
	}
	if len(p) == 0 {
		return 0, nil
	}
	end := len(r.data)
	if r.pos < r.at {
		end = r.at
	}
	if end-r.pos > len(p) {
		end = r.pos + len(p)
	}
	n := copy(p, r.data[r.pos:end])
	r.pos += n
	if r.pos == len(r.data) && r.eofWithLast {
		return n, errEOF()
	}
	return n, nil
}

// HarnessC03UnaryErrorBody: the JSON error body of a non-200 Connect unary
// response decodes to the same code and message whether it arrives in one
// read or split at any point.
//
//verif:harness property=C03 stubs=json,wire
func HarnessC03UnaryErrorBody() {
	msg := nondetString("message", 2)
	assumeJSONSafe(msg)
	body := c06WireError(true, "not_found", msg)
	at := nondetInt("splitAt")
	assume(at >= 0 && at <= len(body))
	src := &splitReader{data: body, at: at, eofWithLast: nondetBool("eofWithLast")}
	header := http.Header{"Content-Type": {"application/json"}}
	tr := &cannedTransport{resp: &http.Response{StatusCode: 404, Status: "404 Not Found", ProtoMajor: 2, Header: header, Body: io.NopCloser(src)}}
	client := NewClient[[]byte, []byte](tr, stackURL, WithCodec(&stackCodec{}), WithCompressMinBytes(1<<20))
	in := []byte{1}
	_, err := client.CallUnary(context.Background(), NewRequest(&in))
	check(err != nil, "a non-200 unary response is an error")
	ce, ok := asError(err)
	check(ok, "the error is a *connect.Error")
	if ok {
		check(ce.Code() == CodeNotFound, "the error code sent by the server is decoded however the body is split across reads")
		check(ce.Message() == msg, "the error message sent by the server is decoded however the body is split across reads")
	}
}

// lazyTrailerBody publishes the response's HTTP trailers when the body is
// read to its end - not before - as net/http does.
type lazyTrailerBody struct {
	r       io.Reader
	resp    *http.Response
	trailer http.Header
}

func (b *lazyTrailerBody) Read(p []byte) (int, error) {
	n, err := b.r.Read(p)
	if err == errEOF() {
		for k, v := range b.trailer {
			b.resp.Trailer[k] = v
		}
	}
	return n, err
}
func (b *lazyTrailerBody) Close() error { return nil }

type c03Outcome struct {
	msgs    int
	code    Code
	message string
	meta    string
}

// HarnessC03GRPCStatusAfterLocalError: a gRPC response whose last message the
// client rejects locally (it exceeds the read limit) and whose HTTP trailers -
// published by the transport only at the end of the body - carry the
// server's own verdict: what the client reports (code, message, trailing
// metadata) must be the same whether end-of-file arrives together with the
// last bytes or on a separate read, and wherever the body is split.
//
//verif:harness property=C03 stubs=json,wire
func HarnessC03GRPCStatusAfterLocalError() {
	body := append(refFrame(0, []byte{1}), refFrame(0, []byte{1, 2, 3, 4, 5, 6})...) // second message over the limit of 4
	trailers := http.Header{"Grpc-Status": {"9"}, "Grpc-Message": {"verdict"}, "X-Trail": {"t"}}
	run := func(src io.Reader) c03Outcome {
		resp := &http.Response{StatusCode: 200, Status: "200 OK", ProtoMajor: 2, Header: http.Header{"Content-Type": {"application/grpc+proto"}}, Trailer: http.Header{}}
		resp.Body = &lazyTrailerBody{r: src, resp: resp, trailer: trailers}
		client := NewClient[[]byte, []byte](&cannedTransport{resp: resp}, stackURL, stackClientOptions(1, WithReadMaxBytes(4))...)
		in := []byte{1}
		var out c03Outcome
		stream, err := client.CallServerStream(context.Background(), NewRequest(&in))
		if err != nil {
			out.code = CodeOf(err)
			return out
		}
		for stream.Receive() {
			out.msgs++
			if out.msgs > 3 {
				break
			}
		}
		if serr := stream.Err(); serr != nil {
			out.code = CodeOf(serr)
			if ce, ok := asError(serr); ok {
				out.message = ce.Message()
			}
		}
		out.meta = stream.ResponseTrailer().Get("X-Trail")
		_ = stream.Close()
		return out
	}
	whole := run(&wholeReader{data: body})
	at := nondetInt("splitAt")
	assume(at >= 0 && at <= len(body))
	split := run(&splitReader{data: body, at: at, eofWithLast: nondetBool("eofWithLast")})
	check(whole.msgs == split.msgs, "segmentation does not change how many messages are delivered")
	check(whole.code == split.code, "segmentation does not change the code the call ends with")
	check(whole.message == split.message, "segmentation does not change the error message")
	check(whole.meta == split.meta, "segmentation does not change the trailing metadata")
	check(whole.code != 0, "a stream with a rejected message fails")
}
