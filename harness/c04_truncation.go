package connect

import (
	"context"
	"errors"
	"io"
	"net/http"
)

// C04 - a call succeeds only if the peer's end-of-stream marker arrived.

// c04Body builds a valid response body for the given messages with the real
// handler-side writers and returns it with the offsets at which frames end.
func c04Body(proto int, msgs [][]byte) (body []byte, frameEnds []int) {
	sink := &byteSink{}
	pool := newBufferPool()
	ew := envelopeWriter{writer: sink, codec: &byteCodec{}, bufferPool: pool}
	frameEnds = append(frameEnds, 0)
	for i := range msgs {
		m := msgs[i]
		if err := ew.Marshal(&m); err != nil {
			check(false, "writing a message to a healthy sink succeeds")
		}
		frameEnds = append(frameEnds, len(sink.b))
	}
	if proto == 0 { // Connect streaming: end-of-stream envelope
		cm := connectStreamingMarshaler{envelopeWriter: ew}
		if err := cm.MarshalEndStream(nil, make(http.Header)); err != nil {
			check(false, "writing the end-of-stream envelope succeeds")
		}
	}
	return sink.b, frameEnds
}

func c04Duplex(body io.ReadCloser, trailer http.Header) *duplexHTTPCall {
	pr, pw := io.Pipe()
	return &duplexHTTPCall{
		ctx:               context.Background(),
		responseReady:     closedChan(),
		requestBodyReader: pr,
		requestBodyWriter: pw,
		response:          &http.Response{StatusCode: 200, Body: body, Header: make(http.Header), Trailer: trailer},
	}
}

func c04Messages() [][]byte {
	k := bound("msgs", 1, 2)
	n := nondetChoice("k", k+1)
	var msgs [][]byte
	for i := 0; i < n; i++ {
		msgs = append(msgs, nondetBytes("msg", bound("msgLen", 2, 3)))
	}
	return msgs
}

func isPrefixOf(got, sent [][]byte) bool {
	if len(got) > len(sent) {
		return false
	}
	for i := range got {
		if !bytesEq(got[i], sent[i]) {
			return false
		}
	}
	return true
}

func codedNonZero(err error) bool {
	ce, ok := asError(err)
	return ok && ce.Code() != 0
}

// HarnessC04ConnectStreamCut: a valid Connect streaming response is cut at
// every offset with every terminal condition.
//
//verif:harness property=C04 stubs=json,wire
func HarnessC04ConnectStreamCut() {
	msgs := c04Messages()
	body, _ := c04Body(0, msgs)
	cut := nondetInt("cut")
	assume(cut >= 0 && cut <= len(body))
	kind := nondetChoice("kind", 3)
	fr := &faultReader{data: body, cut: cut, kind: kind}
	d := c04Duplex(fr, nil)
	pool := newBufferPool()
	cc := &connectStreamingClientConn{
		duplexCall: d, bufferPool: pool, codec: &byteCodec{},
		unmarshaler:     connectStreamingUnmarshaler{envelopeReader: envelopeReader{reader: d, codec: &byteCodec{}, bufferPool: pool}},
		responseHeader:  make(http.Header),
		responseTrailer: make(http.Header),
	}
	stream := &ServerStreamForClient[[]byte]{conn: wrapClientConnWithCodedErrors(cc)}
	var got [][]byte
	calls := 0
	for stream.Receive() {
		got = append(got, append([]byte{}, *stream.Msg()...))
		calls++
		if calls > len(msgs)+2 {
			check(false, "the receive loop terminates")
			return
		}
	}
	check(isPrefixOf(got, msgs), "messages delivered before the end are a prefix of those sent")
	err := stream.Err()
	if err == nil {
		check(cut == len(body), "a Connect stream completes successfully only if the end-of-stream envelope arrived")
		check(len(got) == len(msgs), "a successful stream delivered every message")
	} else {
		check(codedNonZero(err), "a failed stream reports a coded non-OK error")
	}
	check(!stream.Receive(), "once Receive reported the end it keeps reporting it")
}

// HarnessC04GRPCStreamCut: gRPC (HTTP trailers): success requires the
// grpc-status trailer and a body that ended on a frame boundary.
//
//verif:harness property=C04 stubs=json,wire
func HarnessC04GRPCStreamCut() {
	msgs := c04Messages()
	body, frameEnds := c04Body(1, msgs)
	cut := nondetInt("cut")
	assume(cut >= 0 && cut <= len(body))
	kind := nondetChoice("kind", 3)
	trailersPresent := nondetBool("trailers")
	trailer := make(http.Header)
	if trailersPresent {
		trailer[grpcHeaderStatus] = []string{"0"}
	} else if nondetBool("trailersDeclared") {
		// the response announced its trailers ("Trailer: Grpc-Status, ..."):
		// net/http then lists the keys with nil values until they arrive -
		// and here they never do
		trailer[grpcHeaderStatus] = nil
		trailer[grpcHeaderMessage] = nil
	}
	fr := &faultReader{data: body, cut: cut, kind: kind}
	// through the public API (the client's own wiring of where trailers come
	// from is part of what is checked)
	resp := &http.Response{StatusCode: 200, Status: "200 OK", ProtoMajor: 2, Header: http.Header{"Content-Type": {"application/grpc+proto"}}, Trailer: trailer, Body: fr}
	client := NewClient[[]byte, []byte](&cannedTransport{resp: resp}, stackURL, stackClientOptions(1)...)
	in := []byte{1}
	stream, serr := client.CallServerStream(context.Background(), NewRequest(&in))
	check(serr == nil, "starting the stream succeeds")
	if serr != nil {
		return
	}
	var got [][]byte
	calls := 0
	for stream.Receive() {
		got = append(got, append([]byte{}, *stream.Msg()...))
		calls++
		if calls > len(msgs)+2 {
			check(false, "the receive loop terminates")
			return
		}
	}
	check(isPrefixOf(got, msgs), "messages delivered before the end are a prefix of those sent")
	err := stream.Err()
	if err == nil {
		check(trailersPresent, "a gRPC stream completes successfully only if the grpc-status trailer arrived")
		onBoundary := false
		for _, e := range frameEnds {
			onBoundary = onBoundary || e == cut
		}
		check(onBoundary, "a gRPC stream never completes successfully when the body stopped inside a frame")
		check(kind == 0, "a gRPC stream never completes successfully after a transport error")
	} else {
		check(codedNonZero(err), "a failed stream reports a coded non-OK error")
	}
}

// HarnessC04UnaryCut: unary Connect: a body that fails with a transport
// error (not a clean EOF) never yields a response.
//
//verif:harness property=C04
func HarnessC04UnaryCut() {
	body := nondetBytes("body", bound("bodyLen", 3, 5))
	cut := nondetInt("cut")
	assume(cut >= 0 && cut <= len(body))
	kind := nondetChoice("kind", 3)
	fr := &faultReader{data: body, cut: cut, kind: kind}
	d := c04Duplex(fr, nil)
	pool := newBufferPool()
	cc := &connectUnaryClientConn{
		duplexCall: d, bufferPool: pool,
		unmarshaler:     connectUnaryUnmarshaler{reader: d, codec: &byteCodec{}, bufferPool: pool},
		responseHeader:  make(http.Header),
		responseTrailer: make(http.Header),
	}
	res, err := receiveUnaryResponse[[]byte](wrapClientConnWithCodedErrors(cc))
	if err == nil {
		check(kind == 0, "a unary call never succeeds when the body failed with a transport error")
		check(res != nil && bytesEq(*res.Msg, body[:cut]), "a unary response is exactly the bytes delivered")
	} else {
		check(codedNonZero(err), "a failed unary call reports a coded non-OK error")
		check(!errors.Is(err, io.EOF) || kind == 0, "a transport failure is not reported as a clean end")
	}
}

// HarnessC04HandlerCut: a handler never sees a clean end of the request
// stream when the request body failed or stopped inside a frame.
//
//verif:harness property=C04
func HarnessC04HandlerCut() {
	msgs := c04Messages()
	body, frameEnds := c04Body(1, msgs) // requests carry no terminator frame
	cut := nondetInt("cut")
	assume(cut >= 0 && cut <= len(body))
	kind := nondetChoice("kind", 3)
	proto := nondetChoice("proto", 2)
	fr := &faultReader{data: body, cut: cut, kind: kind}
	pool := newBufferPool()
	req := &http.Request{Body: fr, Header: make(http.Header)}
	er := envelopeReader{reader: fr, codec: &byteCodec{}, bufferPool: pool}
	var inner handlerConnCloser
	if proto == 0 {
		inner = &connectStreamingHandlerConn{request: req, unmarshaler: connectStreamingUnmarshaler{envelopeReader: er}, responseTrailer: make(http.Header)}
	} else {
		inner = &grpcHandlerConn{request: req, bufferPool: pool, unmarshaler: grpcUnmarshaler{envelopeReader: er}, responseHeader: make(http.Header), responseTrailer: make(http.Header)}
	}
	stream := &ClientStream[[]byte]{conn: wrapHandlerConnWithCodedErrors(inner)}
	var got [][]byte
	calls := 0
	for stream.Receive() {
		got = append(got, append([]byte{}, *stream.Msg()...))
		calls++
		if calls > len(msgs)+2 {
			check(false, "the receive loop terminates")
			return
		}
	}
	check(isPrefixOf(got, msgs), "messages delivered to the handler are a prefix of those sent")
	// a handler that asks again after the end gets the same answer: the
	// outcome recorded for the stream does not change
	if nondetBool("receiveAgain") {
		check(!stream.Receive(), "once Receive reported the end it keeps reporting it")
	}
	if stream.Err() == nil {
		onBoundary := false
		for _, e := range frameEnds {
			onBoundary = onBoundary || e == cut
		}
		check(kind == 0, "a handler never sees a clean end of stream after a transport failure")
		check(onBoundary, "a handler never sees a clean end of stream when the body stopped inside a frame")
	} else {
		check(codedNonZero(stream.Err()), "a failed request stream reports a coded non-OK error")
	}
}

// HarnessC04WriteFault: if the k-th write to the transport fails, sending
// reports a coded error, never success.
//
//verif:harness property=C04
func HarnessC04WriteFault() {
	msg := nondetBytes("msg", bound("msgLen", 2, 3))
	failAt := nondetInt("failAt")
	assume(failAt >= 1 && failAt <= 2)
	sink := &byteSink{failAt: failAt, err: errOpaqueTransport}
	variant := nondetChoice("variant", 2)
	var err *Error
	if variant == 0 {
		ew := envelopeWriter{writer: sink, codec: &byteCodec{}, bufferPool: newBufferPool()}
		err = ew.Marshal(&msg)
	} else {
		um := connectUnaryMarshaler{writer: sink, codec: &byteCodec{}, bufferPool: newBufferPool(), header: make(http.Header)}
		err = um.Marshal(&msg)
		if failAt == 2 {
			// the unary body is written with a single Write
			check(err == nil, "a unary body is written with one Write")
			return
		}
	}
	if failAt == 2 && len(msg) == 0 {
		// an empty payload is not written at all (io.Copy of an empty buffer)
		return
	}
	check(err != nil, "a failed transport write is never reported as success")
	if err != nil {
		check(err.Code() != 0, "a failed transport write reports a coded non-OK error")
	}
}

// HarnessC04TransportFailure: the exchange fails before any response exists
// and the transport's error happens to wrap io.EOF (as net/http reports a
// server that closed the connection: `Post "...": EOF`) or
// io.ErrUnexpectedEOF.  No call shape of no protocol may report success.
//
//verif:harness property=C04 stubs=json,wire shard=proto:3
func HarnessC04TransportFailure() {
	proto := nondetChoice("proto", 3)
	var cause error
	switch nondetChoice("cause", 3) {
	case 0:
		cause = io.EOF
	case 1:
		cause = io.ErrUnexpectedEOF
	default:
		cause = errOpaqueTransport
	}
	var terr error = &c15URLError{cause}
	if nondetBool("bare") {
		terr = cause
	}
	client := NewClient[[]byte, []byte](&failingTransport{err: terr}, stackURL, stackClientOptions(proto)...)
	in := []byte{1}
	if nondetBool("stream") {
		stream, err := client.CallServerStream(context.Background(), NewRequest(&in))
		if err == nil {
			n := 0
			for stream.Receive() {
				n++
				if n > 2 {
					break
				}
			}
			check(n == 0, "a failed exchange delivers no message")
			err = stream.Err()
			_ = stream.Close()
		}
		check(err != nil, "a server stream whose exchange failed never ends cleanly")
		if err != nil {
			check(CodeOf(err) != 0, "the failure of the exchange is reported with a non-zero code")
		}
		return
	}
	res, err := client.CallUnary(context.Background(), NewRequest(&in))
	check(err != nil && res == nil, "a unary call whose exchange failed never reports success")
	if err != nil {
		check(CodeOf(err) != 0, "the failure of the exchange is reported with a non-zero code")
	}
}

// HarnessC04NothingHangs: the "nothing hangs" clause through the full stack:
// the client/handler program families of C14 (c14Run, deterministic
// schedule), which include a Send issued after the response ended - cleanly or
// not - on a transport that keeps the request body open: every operation
// returns (a state with every goroutine blocked is a deadlock), and a Send
// after the end fails with an error wrapping io.EOF.
//
//verif:harness property=C04 stubs=json,wire shard=proto:3 race=on
func HarnessC04NothingHangs() {
	c14Run(nondetChoice("proto", 3), false)
}

// HarnessC04GRPCWebStreamCut: gRPC-Web (full stack, real client): the
// terminator is the trailer frame in the body.  The body is cut at a symbolic offset (clean EOF, unexpected
// EOF or transport error); whatever the HTTP-level trailers say - absent, or
// a Grpc-Status: 0 a proxy added - the call succeeds only if the 0x80 frame
// arrived completely.
//
//verif:harness property=C04 stubs=json,wire
func HarnessC04GRPCWebStreamCut() {
	msgs := c04Messages()
	body, frameEnds := c04Body(1, msgs)
	dataLen := len(body)
	body = append(body, refFrame(0x80, []byte("grpc-status: 0\r\n"))...)
	cut := nondetInt("cut")
	assume(cut >= 0 && cut <= len(body))
	// offsets inside the trailer frame all behave alike: keep its first bytes, its middle and its end
	assume(cut <= dataLen+6 || cut >= len(body)-1)
	kind := nondetChoice("kind", 3)
	trailer := make(http.Header)
	if nondetBool("httpTrailerStatus") {
		trailer[grpcHeaderStatus] = []string{"0"}
	}
	fr := &faultReader{data: body, cut: cut, kind: kind}
	// through the public API: the client's own wiring of "where do the
	// trailers come from" is part of what is checked
	resp := &http.Response{StatusCode: 200, Status: "200 OK", ProtoMajor: 2, Header: http.Header{"Content-Type": {"application/grpc-web+proto"}}, Trailer: trailer, Body: fr}
	client := NewClient[[]byte, []byte](&cannedTransport{resp: resp}, stackURL, stackClientOptions(2)...)
	in := []byte{1}
	stream, serr := client.CallServerStream(context.Background(), NewRequest(&in))
	check(serr == nil, "starting the stream succeeds")
	if serr != nil {
		return
	}
	var got [][]byte
	calls := 0
	for stream.Receive() {
		got = append(got, append([]byte{}, *stream.Msg()...))
		calls++
		if calls > len(msgs)+2 {
			check(false, "the receive loop terminates")
			return
		}
	}
	check(isPrefixOf(got, msgs), "messages delivered before the end are a prefix of those sent")
	err := stream.Err()
	_ = frameEnds
	if err == nil {
		check(cut == len(body), "a gRPC-Web stream completes successfully only if the whole trailer frame arrived")
		check(len(got) == len(msgs), "a successful gRPC-Web stream delivered every message")
	} else {
		check(codedNonZero(err), "a failed stream reports a coded non-OK error")
	}
}
