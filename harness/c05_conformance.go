package connect

import (
	"bytes"
	"context"
	"encoding/base64"
	"errors"
	"io"
	"net/http"
	"strings"
)

// C05 - bytes on the wire conform to the Connect, gRPC and gRPC-Web protocols.
// Reference functions below are written from the protocol documents, not from
// connect-go's code.

// ---- reference framing: 1 flag byte, 4-byte big-endian length, payload ----

func refFrame(flags byte, payload []byte) []byte {
	n := len(payload)
	out := []byte{flags, byte(n >> 24), byte(n >> 16), byte(n >> 8), byte(n)}
	return append(out, payload...)
}

type refFrameT struct {
	flags   byte
	payload []byte
}

// refParseFrames splits a body into frames; ok=false if it is not a whole number of frames.
func refParseFrames(body []byte) (frames []refFrameT, ok bool) {
	for len(body) > 0 {
		if len(body) < 5 {
			return frames, false
		}
		n := int(body[1])<<24 | int(body[2])<<16 | int(body[3])<<8 | int(body[4])
		if len(body) < 5+n {
			return frames, false
		}
		frames = append(frames, refFrameT{body[0], body[5 : 5+n]})
		body = body[5+n:]
	}
	return frames, true
}

// ---- reference percent-decoding per the gRPC spec (Grpc-Message) ----

func refHexVal(c byte) (byte, bool) {
	switch {
	case c >= '0' && c <= '9':
		return c - '0', true
	case c >= 'a' && c <= 'f':
		return c - 'a' + 10, true
	case c >= 'A' && c <= 'F':
		return c - 'A' + 10, true
	}
	return 0, false
}

func refPercentDecode(s string) (string, bool) {
	var out []byte
	for i := 0; i < len(s); i++ {
		c := s[i]
		if c < 0x20 || c > 0x7e {
			return "", false // not in the Percent-Encoded alphabet
		}
		if c != '%' {
			out = append(out, c)
			continue
		}
		if i+2 >= len(s) {
			return "", false
		}
		h, ok1 := refHexVal(s[i+1])
		l, ok2 := refHexVal(s[i+2])
		if !ok1 || !ok2 {
			return "", false
		}
		out = append(out, h<<4|l)
		i += 2
	}
	return string(out), true
}

func refPercentEncode(s string, upper bool) string {
	digits := "0123456789abcdef"
	if upper {
		digits = "0123456789ABCDEF"
	}
	var out []byte
	for i := 0; i < len(s); i++ {
		c := s[i]
		if c >= 0x20 && c <= 0x7e && c != '%' {
			out = append(out, c)
		} else {
			out = append(out, '%', digits[c>>4], digits[c&15])
		}
	}
	return string(out)
}

// ---- reference tables (Connect protocol document as of this tree's version;
// gRPC's http-grpc-status-mapping) ----

func refConnectCodeToHTTP(c Code) int {
	switch c {
	case 1:
		return 408
	case 2:
		return 500
	case 3:
		return 400
	case 4:
		return 408
	case 5:
		return 404
	case 6:
		return 409
	case 7:
		return 403
	case 8:
		return 429
	case 9:
		return 412
	case 10:
		return 409
	case 11:
		return 400
	case 12:
		return 404
	case 13:
		return 500
	case 14:
		return 503
	case 15:
		return 500
	case 16:
		return 401
	}
	return 500
}

func refGRPCHTTPToCode(s int) Code {
	switch s {
	case 400:
		return 13
	case 401:
		return 16
	case 403:
		return 7
	case 404:
		return 12
	case 429, 502, 503, 504:
		return 14
	}
	return 2
}

func refConnectHTTPToCode(s int) Code {
	switch s {
	case 400:
		return 3
	case 401:
		return 16
	case 403:
		return 7
	case 404:
		return 12
	case 408:
		return 4
	case 412:
		return 9
	case 413, 431:
		return 8
	case 429, 502, 503, 504:
		return 14
	}
	return 2
}

// assumeNoOuterBlanks: the gRPC Percent-Encoded alphabet leaves SP
// unescaped, and HTTP strips optional whitespace around field values, so a
// message with a leading or trailing blank cannot survive Grpc-Message in any
// spec-following implementation.  The conformance checks do not demand more
// than the specification can deliver (such messages still reach connect-go
// clients through grpc-status-details-bin: see C02).
func assumeNoOuterBlanks(s string) {
	if len(s) > 0 {
		assume(s[0] != ' ' && s[len(s)-1] != ' ')
	}
}

// HarnessC05Tables: status tables for every int status and every code.
//
//verif:harness property=C05
func HarnessC05Tables() {
	s := nondetInt("status")
	c := Code(nondetUint32("code"))
	check(connectCodeToHTTP(c) == refConnectCodeToHTTP(c), "Connect code -> HTTP status follows the protocol table")
	check(grpcHTTPToCode(s) == refGRPCHTTPToCode(s), "gRPC HTTP status -> code follows http-grpc-status-mapping")
	check(connectHTTPToCode(s) == refConnectHTTPToCode(s), "Connect HTTP status -> code follows the protocol table")
}

// HarnessC05Envelope: the real writer's output parses with the reference
// framing and vice versa, for symbolic flags and payloads.
//
//verif:harness property=C05
func HarnessC05Envelope() {
	payload := nondetBytes("payload", bound("len", 3, 5))
	flags := nondetByte("flags")
	sink := &byteSink{}
	ew := envelopeWriter{writer: sink, codec: &byteCodec{}, bufferPool: newBufferPool()}
	err := ew.Write(&envelope{Data: bytes.NewBuffer(append([]byte{}, payload...)), Flags: flags})
	check(err == nil, "writing succeeds")
	frames, ok := refParseFrames(sink.b)
	check(ok && len(frames) == 1, "the writer emits exactly one well-formed frame")
	if ok && len(frames) == 1 {
		check(frames[0].flags == flags && bytesEq(frames[0].payload, payload), "flag byte and big-endian length prefix follow the protocol framing")
	}
	// conversely: a reference-framed message is read back by the real reader
	f2 := nondetChoice("dataFlags", 2) // 0 only: uncompressed data frame, 1: protocol-specific flag 0x02
	fl := byte(0)
	if f2 == 1 {
		fl = 0x02
	}
	er := &envelopeReader{reader: &wholeReader{data: refFrame(fl, payload)}, codec: &byteCodec{}, bufferPool: newBufferPool()}
	env := &envelope{Data: &bytes.Buffer{}}
	rerr := er.Read(env)
	check(rerr == nil && env.Flags == fl && bytesEq(env.Data.Bytes(), payload), "a reference-framed message is read back with the same flags and payload")
}

// refWebTrailers parses a gRPC-Web trailer frame payload: an HTTP/1 header
// block, names compared case-insensitively.
func refWebTrailers(block []byte) (map[string][]string, bool) {
	out := map[string][]string{}
	for _, line := range strings.Split(string(block), "\r\n") {
		if line == "" {
			continue
		}
		i := strings.IndexByte(line, ':')
		if i <= 0 {
			return nil, false
		}
		k := strings.ToLower(line[:i])
		out[k] = append(out[k], strings.TrimSpace(line[i+1:]))
	}
	return out, true
}

func lowerKeys(h http.Header) map[string][]string {
	out := map[string][]string{}
	for k, v := range h {
		lk := strings.ToLower(k)
		out[lk] = append(out[lk], v...)
	}
	return out
}

// HarnessC05HandlerWire: what a handler writes, judged by the reference
// rules: gRPC/gRPC-Web are HTTP 200 with exactly one grpc-status in exactly
// one place, Grpc-Message is percent-encoded per spec, a Connect stream ends
// with exactly one end-of-stream envelope, a unary Connect error is JSON
// under the code's status, Content-Type echoes the request's.
//
//verif:harness property=C05 stubs=json,wire shard=proto:3
func HarnessC05HandlerWire() {
	proto := nondetChoice("proto", 3)
	streaming := nondetBool("streaming")
	sent := 0
	if streaming {
		sent = nondetChoice("sent", 2)
	}
	fail := nondetBool("fail")
	code := Code(nondetUint32("code"))
	assume(code >= 1 && code <= 16)
	msg := nondetString("message", bound("msgLen", 1, 2))
	assumeNoOuterBlanks(msg)
	// a gateway-style handler may return an error whose metadata was copied
	// from an upstream gRPC error and therefore contains protocol keys
	upstreamMeta := nondetBool("errorMetaHasProtocolKeys")
	if upstreamMeta {
		assume(code == 9 && fail) // one code is enough for this dimension
	}
	mkErr := func() error {
		e := NewError(code, errors.New(msg))
		if upstreamMeta {
			e.Meta().Set("Grpc-Status", "8")
			e.Meta().Set("Grpc-Message", "upstream")
			e.Meta().Set("X-Upstream", "u")
		}
		return e
	}
	var handler *Handler
	if streaming {
		handler = NewServerStreamHandler("/pkg.Svc/Method", func(ctx context.Context, req *Request[[]byte], s *ServerStream[[]byte]) error {
			for i := 0; i < sent; i++ {
				out := []byte{0x61}
				if err := s.Send(&out); err != nil {
					return err
				}
			}
			if fail {
				return mkErr()
			}
			return nil
		}, stackHandlerOptions()...)
	} else {
		handler = NewUnaryHandler("/pkg.Svc/Method", func(ctx context.Context, req *Request[[]byte]) (*Response[[]byte], error) {
			if fail {
				return nil, mkErr()
			}
			out := []byte{0x61}
			return NewResponse(&out), nil
		}, stackHandlerOptions()...)
		sent = 1
		if fail {
			sent = 0
		}
	}
	// a reference-encoded request
	var ct string
	var body []byte
	switch {
	case proto == 0 && !streaming:
		ct, body = "application/proto", []byte{1}
	case proto == 0:
		ct, body = "application/connect+proto", refFrame(0, []byte{1})
	case proto == 1:
		ct, body = "application/grpc", refFrame(0, []byte{1})
	default:
		ct, body = "application/grpc-web+proto", refFrame(0, []byte{1})
	}
	rec := newRecWriter()
	req := &http.Request{Method: "POST", ProtoMajor: 2, Header: http.Header{"Content-Type": {ct}}, Body: io.NopCloser(&wholeReader{data: body})}
	handler.ServeHTTP(rec, req)
	status, header, trailer, rbody := rec.finish()
	hl, tl := lowerKeys(header), lowerKeys(trailer)

	if proto == 0 && !streaming {
		if fail {
			check(status == refConnectCodeToHTTP(code), "a unary Connect error uses the code's HTTP status")
			check(header.Get("Content-Type") == "application/json", "a unary Connect error body is JSON")
		} else {
			check(status == 200, "a successful unary Connect response is HTTP 200")
			check(header.Get("Content-Type") == ct, "the response Content-Type echoes the request's")
			check(bytesEq(rbody, []byte{0x61}), "a unary Connect response body is the bare message")
		}
		return
	}
	check(status == 200, "streaming, gRPC and gRPC-Web responses are HTTP 200")
	check(header.Get("Content-Type") == ct, "the response Content-Type echoes the request's")
	frames, ok := refParseFrames(rbody)
	check(ok, "the response body is a whole number of frames")
	if !ok {
		return
	}
	if proto == 0 {
		ends := 0
		for i, f := range frames {
			if f.flags&0x02 != 0 {
				ends++
				check(i == len(frames)-1, "the end-of-stream envelope is the last frame")
			}
		}
		check(ends == 1, "a Connect stream ends with exactly one end-of-stream envelope")
		check(len(frames) == sent+1, "every message is one frame")
		return
	}
	// gRPC / gRPC-Web: find grpc-status
	var status1, message1 []string
	places := 0
	if v, ok := hl["grpc-status"]; ok {
		places++
		status1, message1 = v, hl["grpc-message"]
	}
	if v, ok := tl["grpc-status"]; ok {
		places++
		status1, message1 = v, tl["grpc-message"]
	}
	dataFrames := 0
	for i, f := range frames {
		if f.flags&0x80 != 0 {
			check(proto == 2, "only gRPC-Web carries trailers in the body")
			check(i == len(frames)-1, "the gRPC-Web trailer frame is the last frame")
			tr, tok := refWebTrailers(f.payload)
			check(tok, "the gRPC-Web trailer frame is an HTTP/1 header block")
			if v, ok := tr["grpc-status"]; ok {
				places++
				status1, message1 = v, tr["grpc-message"]
			}
		} else {
			dataFrames++
		}
	}
	check(dataFrames == sent, "every message is one data frame")
	check(places == 1 && len(status1) == 1, "exactly one grpc-status in exactly one place")
	if proto == 1 {
		check(len(tl["grpc-status"]) == 1, "gRPC sends grpc-status in HTTP trailers")
	} else if dataFrames == 0 && len(frames) == 0 {
		check(len(hl["grpc-status"]) == 1, "a body-less gRPC-Web response carries grpc-status in the headers")
	}
	if len(status1) == 1 {
		want := "0"
		if fail {
			want = []string{"0", "1", "2", "3", "4", "5", "6", "7", "8", "9", "10", "11", "12", "13", "14", "15", "16"}[code]
		}
		check(status1[0] == want, "grpc-status is the decimal code")
		if fail && len(message1) == 1 {
			dec, ok := refPercentDecode(message1[0])
			check(ok, "Grpc-Message is in the spec's Percent-Encoded alphabet")
			check(!ok || dec == msg, "Grpc-Message percent-decodes to the error message")
		} else if fail {
			check(false, "a failed gRPC response carries exactly one grpc-message")
		}
	}
}

// cannedTransport returns a crafted response after draining the request.
type cannedTransport struct {
	resp      *http.Response
	reqHeader http.Header
	reqBody   []byte
	method    string
}

func (t *cannedTransport) Do(req *http.Request) (*http.Response, error) {
	t.reqHeader = req.Header
	t.method = req.Method
	b, _ := io.ReadAll(req.Body)
	t.reqBody = b
	_ = req.Body.Close()
	t.resp.Request = req
	return t.resp, nil
}

// HarnessC05ReferenceGRPCResponse: a conformant gRPC / gRPC-Web response
// produced by the reference encoder (either hex case in Grpc-Message) is
// accepted by the real client and decoded to the same values.
//
//verif:harness property=C05 stubs=json,wire
func HarnessC05ReferenceGRPCResponse() {
	web := nondetBool("web")
	fail := nondetBool("fail")
	upper := nondetBool("upperHex")
	// with the binary status present the text is concrete (its length, which
	// decides the base64 padding, is still chosen by the solver): symbolic
	// base64 on top of symbolic percent-encoding is not affordable
	details := 0
	if fail {
		details = nondetChoice("statusDetails", 3)
	}
	var msg string
	if details > 0 {
		msg = "nah!"[:nondetChoice("detailsMsgLen", 5)]
	} else {
		msg = nondetString("message", bound("msgLen", 2, 3))
		assumeNoOuterBlanks(msg)
	}
	payload := nondetBytes("payload", 2)
	header := http.Header{"Content-Type": {"application/grpc+proto"}}
	trailer := http.Header{}
	st := http.Header{"Grpc-Status": {"0"}}
	if fail {
		st = http.Header{"Grpc-Status": {"9"}, "Grpc-Message": {refPercentEncode(msg, upper)}}
		// a conformant peer may also send the binary status, base64 with or
		// without padding (the status message in the registered codec's layout:
		// 4-byte code, then the text)
		if details > 0 {
			raw := append([]byte{0, 0, 0, 9}, msg...)
			enc := base64.RawStdEncoding.EncodeToString(raw)
			if details == 2 {
				enc = base64.StdEncoding.EncodeToString(raw)
			}
			st["Grpc-Status-Details-Bin"] = []string{enc}
		}
	}
	var body []byte
	if !fail {
		body = refFrame(0, payload)
	}
	if web {
		header = http.Header{"Content-Type": {"application/grpc-web+proto"}}
		block := ""
		for _, k := range []string{"Grpc-Status", "Grpc-Message", "Grpc-Status-Details-Bin"} {
			if v, ok := st[k]; ok {
				block += strings.ToLower(k) + ": " + v[0] + "\r\n"
			}
		}
		body = append(body, refFrame(0x80, []byte(block))...)
	} else {
		trailer = st
	}
	tr := &cannedTransport{resp: &http.Response{StatusCode: 200, Status: "200 OK", ProtoMajor: 2, Header: header, Trailer: trailer, Body: io.NopCloser(&wholeReader{data: body})}}
	opt := WithGRPC()
	if web {
		opt = WithGRPCWeb()
	}
	client := NewClient[[]byte, []byte](tr, stackURL, WithCodec(&stackCodec{}), WithCompressMinBytes(1<<20), opt)
	in := []byte{1}
	res, err := client.CallUnary(context.Background(), NewRequest(&in))
	if fail {
		ce, ok := asError(err)
		check(ok && ce.Code() == CodeFailedPrecondition, "a conformant error response yields its code")
		check(!ok || ce.Message() == msg, "a conformant Grpc-Message is percent-decoded to the original text")
	} else {
		check(err == nil && res != nil && bytesEq(*res.Msg, payload), "a conformant response is decoded to its message")
	}
	// and the request the client wrote is conformant
	frames, ok := refParseFrames(tr.reqBody)
	check(ok && len(frames) == 1 && frames[0].flags == 0 && bytesEq(frames[0].payload, in), "the gRPC request body is one uncompressed frame")
	wantCT := "application/grpc+proto"
	if web {
		wantCT = "application/grpc-web+proto"
	}
	check(tr.reqHeader.Get("Content-Type") == wantCT, "the gRPC request names its protocol and codec")
	check(web || tr.reqHeader.Get("Te") == "trailers", "gRPC requests carry TE: trailers")
}

// HarnessC05ClientWire: what a client writes, judged by the reference rules:
// POST, the protocol's Content-Type, the protocol's own headers, and - the
// last clause of the property - a message is marked as compressed (the unary
// Content-Encoding header, or the envelope flag plus the stream's encoding
// header) only if it really is; whatever the marking says, a reference
// decoder recovers the message the application passed in.
//
//verif:harness property=C05 stubs=json,wire shard=proto:3
func HarnessC05ClientWire() {
	c05ClientWire()
}

func c05ClientWire() {
	proto := nondetChoice("proto", 3)
	streaming := nondetBool("streaming")
	send := nondetBool("sendCompression")
	minBytes := nondetInt("minBytes")
	assume(minBytes >= 0 && minBytes <= 3)
	msg := nondetBytes("msg", bound("clientMsgLen", 2, 3))
	copts := []ClientOption{WithCodec(&stackCodec{}), WithCompressMinBytes(minBytes), c08XorClient("gzip")}
	if send {
		copts = append(copts, WithSendCompression("gzip"))
	}
	switch proto {
	case 1:
		copts = append(copts, WithGRPC())
	case 2:
		copts = append(copts, WithGRPCWeb())
	}
	// any well-formed response will do
	rct := []string{"application/proto", "application/grpc+proto", "application/grpc-web+proto"}[proto]
	rbody := []byte{7}
	if proto != 0 || streaming {
		rbody = refFrame(0, []byte{7})
		switch {
		case proto == 0:
			rct = "application/connect+proto"
			rbody = append(rbody, refFrame(0x02, c06EndStream(false, nil, "", ""))...)
		case proto == 2:
			rbody = append(rbody, refFrame(0x80, []byte("grpc-status: 0\r\n"))...)
		}
	}
	resp := &http.Response{StatusCode: 200, Status: "200 OK", ProtoMajor: 2, Header: http.Header{"Content-Type": {rct}}, Trailer: http.Header{}, Body: io.NopCloser(&wholeReader{data: rbody})}
	if proto == 1 {
		resp.Trailer.Set("Grpc-Status", "0")
	}
	tr := &cannedTransport{resp: resp}
	client := NewClient[[]byte, []byte](tr, stackURL, copts...)
	in := append([]byte{}, msg...)
	if streaming {
		stream := client.CallClientStream(context.Background())
		check(stream.Send(&in) == nil, "sending succeeds")
		_, err := stream.CloseAndReceive()
		check(err == nil, "the call succeeds")
	} else {
		_, err := client.CallUnary(context.Background(), NewRequest(&in))
		check(err == nil, "the call succeeds")
	}
	h := tr.reqHeader
	check(tr.method == "POST", "requests are POSTs")
	unaryConnect := proto == 0 && !streaming
	wantCT := []string{"application/connect+proto", "application/grpc+proto", "application/grpc-web+proto"}[proto]
	if unaryConnect {
		wantCT = "application/proto"
	}
	check(h.Get("Content-Type") == wantCT, "the request Content-Type is the protocol's media type with the codec name")
	if proto == 1 {
		check(h.Get("Te") == "trailers", "gRPC requests carry TE: trailers")
	}
	decode := func(named string, compressed bool, payload []byte) ([]byte, bool) {
		if !compressed {
			return payload, true
		}
		if named != "gzip" {
			return nil, false // marked compressed without naming a registered algorithm
		}
		if len(payload) == 0 || payload[0] != 0xC5 {
			return nil, false // marked compressed, but the bytes are not
		}
		out := make([]byte, len(payload)-1)
		for i, b := range payload[1:] {
			out[i] = b ^ 0x5A
		}
		return out, true
	}
	if unaryConnect {
		named := h.Get("Content-Encoding")
		check(named == "" || named == "identity" || named == "gzip", "the unary encoding header names a registered algorithm")
		got, ok := decode(named, named != "" && named != "identity", tr.reqBody)
		check(ok, "a unary request body marked as compressed really is compressed")
		check((named != "" && named != "identity") == (send && len(msg) >= minBytes), "a unary request is compressed exactly when compression was chosen and the message reaches compress-min-bytes")
		check(!ok || bytesEq(got, msg), "a reference server recovers the unary request message")
		return
	}
	named := h.Get([]string{"Connect-Content-Encoding", "Grpc-Encoding", "Grpc-Encoding"}[proto])
	frames, ok := refParseFrames(tr.reqBody)
	check(ok, "the request body is a whole number of frames")
	if !ok {
		return
	}
	check(len(frames) == 1, "one message is one frame")
	for _, f := range frames {
		check(f.flags&^1 == 0, "request frames carry only the compressed flag")
		check((f.flags&1 != 0) == (send && len(msg) >= minBytes), "an enveloped request message is compressed exactly when compression was chosen and it reaches compress-min-bytes")
		got, dok := decode(named, f.flags&1 != 0, f.payload)
		check(dok, "a message is flagged compressed only if the encoding header names the algorithm and the bytes are compressed")
		check(!dok || bytesEq(got, msg), "a reference server recovers the enveloped request message")
	}
}

// HarnessC05CompressedUnaryError: a conformant peer may compress the JSON
// error body of a non-200 unary Connect response with an algorithm the client
// advertised: the client must still report the server's code and message.
//
//verif:harness property=C05 stubs=json,wire
func HarnessC05CompressedUnaryError() {
	msg := nondetString("message", 1)
	assumeJSONSafe(msg)
	compressed := nondetBool("compressed")
	body := c06WireError(true, "not_found", msg)
	header := http.Header{"Content-Type": {"application/json"}}
	if compressed {
		wire := []byte{0xC5}
		for _, b := range body {
			wire = append(wire, b^0x5A)
		}
		body = wire
		header.Set("Content-Encoding", "gzip")
	}
	tr := &cannedTransport{resp: &http.Response{StatusCode: 404, Status: "404 Not Found", ProtoMajor: 2, Header: header, Body: io.NopCloser(&wholeReader{data: body})}}
	client := NewClient[[]byte, []byte](tr, stackURL, stackClientOptions(0, c08XorClient("gzip"))...)
	in := []byte{1}
	_, err := client.CallUnary(context.Background(), NewRequest(&in))
	ce, ok := asError(err)
	check(ok, "the error is a *connect.Error")
	if ok {
		check(ce.Code() == CodeNotFound, "the server's error code is decoded from a compressed or uncompressed error body")
		check(ce.Message() == msg, "the server's error message is decoded from a compressed or uncompressed error body")
	}
	check(containsStr(strings.Split(tr.reqHeader.Get("Accept-Encoding"), ","), "gzip"), "the client advertised the algorithm the peer used")
}
