package connect

import (
	"context"
	"encoding/binary"
	"errors"
	"io"
	"net/http"
	"strings"
)

// C06 - whatever a server sends, the client fails safely with a coded non-OK error.

// jsonSafe: bytes that need no escaping inside a JSON string (so that the
// native replay can build real JSON from the same model values).
func assumeJSONSafe(s string) {
	for i := 0; i < len(s); i++ {
		assume(s[i] >= 0x20 && s[i] <= 0x7e && s[i] != '"' && s[i] != '\\')
	}
}

// c06WireError renders a Connect error body from symbolic fields: the private
// stub format on the symbolic side, real JSON natively.
func c06WireError(hasCode bool, code, msg string) []byte {
	if verifSymbolic() {
		c := code
		if !hasCode {
			c = ""
		}
		return putStr(putStr([]byte{'E'}, c), msg)
	}
	var parts []string
	if hasCode {
		parts = append(parts, `"code":"`+code+`"`)
	}
	if msg != "" {
		parts = append(parts, `"message":"`+msg+`"`)
	}
	return []byte("{" + strings.Join(parts, ",") + "}")
}

// (extra: a second metadata key and its value)
func c06EndStream(hasErr bool, errBody []byte, key, val string, extra ...string) []byte {
	if verifSymbolic() {
		out := []byte{'S'}
		if hasErr {
			out = putStr(append(out, 1), string(errBody))
		} else {
			out = append(out, 0)
		}
		if key != "" {
			out = append(out, byte(1+len(extra)/2))
			out = putStr(out, key)
			out = append(out, 1)
			out = putStr(out, val)
			if len(extra) == 2 {
				out = putStr(out, extra[0])
				out = append(out, 1)
				out = putStr(out, extra[1])
			}
		} else {
			out = append(out, 0)
		}
		return out
	}
	var parts []string
	if hasErr {
		parts = append(parts, `"error":`+string(errBody))
	}
	if key != "" {
		md := `"` + key + `":["` + val + `"]`
		if len(extra) == 2 {
			md += `,"` + extra[0] + `":["` + extra[1] + `"]`
		}
		parts = append(parts, `"metadata":{`+md+`}`)
	}
	return []byte("{" + strings.Join(parts, ",") + "}")
}

func c06CodeString() (bool, string) {
	switch nondetChoice("codeKind", 4) {
	case 0:
		return false, ""
	case 1:
		return true, ""
	case 2:
		// code_<digits>
		d := nondetString("codeDigits", bound("codeDigits", 2, 11))
		for i := 0; i < len(d); i++ {
			assume(d[i] >= '0' && d[i] <= '9')
		}
		return true, "code_" + d
	}
	s := nondetString("codeText", bound("codeText", 3, 8))
	assumeJSONSafe(s)
	return true, s
}

func c06CheckSafe(err error, what string) {
	if err == nil {
		return
	}
	ce, ok := asError(err)
	check(ok, what+": a failed call returns an error inspectable as *connect.Error")
	if ok {
		check(ce.Code() != 0, what+": a failed call never carries the zero (OK) code")
	}
}

// HarnessC06ConnectUnary: any status, a wire-error body with symbolic fields
// (or undecodable bytes), unknown encodings.
//
//verif:harness property=C06 stubs=json,wire ints=bv cross=z3-new
func HarnessC06ConnectUnary() {
	status := nondetInt("status")
	assume(status >= 0 && status <= 999)
	var body []byte
	decodable := nondetBool("decodable")
	if decodable {
		hasCode, code := c06CodeString()
		msg := nondetString("message", 2)
		assumeJSONSafe(msg)
		body = c06WireError(hasCode, code, msg)
	} else {
		body = nondetBytes("garbage", bound("garbage", 3, 5))
		if len(body) > 0 {
			// neither JSON nor the stub format starts like this
			assume(body[0] != '{' && body[0] != 'E' && body[0] != 'S' && body[0] != ' ' && body[0] != '\n' && body[0] != '\t' && body[0] != '\r')
		}
	}
	header := http.Header{"Content-Type": {"application/proto"}}
	if nondetBool("encoded") {
		header["Content-Encoding"] = []string{nondetStringN("encoding", 2)}
	}
	tr := &cannedTransport{resp: &http.Response{StatusCode: status, Status: "status text", ProtoMajor: 1, Header: header, Body: io.NopCloser(&wholeReader{data: body})}}
	client := NewClient[[]byte, []byte](tr, stackURL, WithCodec(&stackCodec{}), WithCompressMinBytes(1<<20))
	in := []byte{1}
	_, err := client.CallUnary(context.Background(), NewRequest(&in))
	c06CheckSafe(err, "Connect unary")
	if err != nil && status != 200 && !decodable && len(header["Content-Encoding"]) == 0 {
		check(CodeOf(err) == refConnectHTTPToCode(status), "a non-200 response without a valid protocol error gets the code derived from the HTTP status")
	}
	if status != 200 {
		check(err != nil, "a non-200 unary response is never a success")
	}
}

// HarnessC06ConnectStream: a Connect streaming response whose end-of-stream
// message has symbolic error fields and a metadata key in arbitrary case.
//
//verif:harness property=C06 stubs=json,wire cross=z3-new
func HarnessC06ConnectStream() {
	status := nondetInt("status")
	assume(status >= 0 && status <= 999)
	hasErr := nondetBool("hasError")
	var errBody []byte
	if hasErr {
		hasCode, code := c06CodeString()
		errBody = c06WireError(hasCode, code, "m")
	}
	// metadata key "x-meta" with per-letter case chosen by the solver
	key := []byte("x-meta")
	if nondetBool("upperFirst") {
		key[0] -= 0x20
	}
	if nondetBool("upperInner") {
		key[2] -= 0x20
		key[4] -= 0x20
	}
	// optionally the same name once more under the canonical spelling: both
	// values belong to the one case-insensitive key
	twice := nondetBool("sameNameTwoCasings") && string(key) != "X-Meta"
	var end []byte
	if twice {
		end = c06EndStream(hasErr, errBody, string(key), "v1", "X-Meta", "v2")
	} else {
		end = c06EndStream(hasErr, errBody, string(key), "v1")
	}
	var body []byte
	if nondetBool("message") {
		body = append(body, refFrame(0, []byte{7})...)
	}
	body = append(body, refFrame(0x02, end)...)
	body = append(body, nondetBytes("tail", 1)...)
	header := http.Header{"Content-Type": {"application/connect+proto"}}
	tr := &cannedTransport{resp: &http.Response{StatusCode: status, Status: "status text", ProtoMajor: 2, Header: header, Body: io.NopCloser(&wholeReader{data: body})}}
	client := NewClient[[]byte, []byte](tr, stackURL, WithCodec(&stackCodec{}), WithCompressMinBytes(1<<20))
	in := []byte{1}
	stream, err := client.CallServerStream(context.Background(), NewRequest(&in))
	if err != nil {
		c06CheckSafe(err, "Connect stream")
		return
	}
	n := 0
	for stream.Receive() {
		n++
		if n > 3 {
			check(false, "the receive loop terminates")
			return
		}
	}
	serr := stream.Err()
	c06CheckSafe(serr, "Connect stream")
	if status != 200 {
		check(serr != nil, "a non-200 streaming response is never a success")
	}
	if status == 200 {
		// the end-of-stream metadata must be retrievable case-insensitively
		// (only when the end-of-stream message itself was decodable: an
		// invalid code string makes the whole message undecodable)
		got := stream.ResponseTrailer().Values("X-Meta")
		decoded := !hasErr
		if serr != nil {
			if ce, ok := asError(serr); ok && hasErr && ce.Message() == "m" {
				got = ce.Meta().Values("X-Meta")
				decoded = true
			}
		}
		if decoded {
			check(containsStr(got, "v1"), "end-of-stream metadata is retrievable whatever casing the peer used")
			if twice {
				check(containsStr(got, "v2") && len(got) == 2, "values sent under two casings of one name are all retrievable")
			} else {
				check(len(got) == 1, "a metadata value arrives once")
			}
		}
	}
	_ = stream.Close()
}

func c06GRPCCall(web bool, status int, header, trailer http.Header, body []byte) error {
	tr := &cannedTransport{resp: &http.Response{StatusCode: status, Status: "status text", ProtoMajor: 2, Header: header, Trailer: trailer, Body: io.NopCloser(&wholeReader{data: body})}}
	opt := WithGRPC()
	if web {
		opt = WithGRPCWeb()
	}
	client := NewClient[[]byte, []byte](tr, stackURL, WithCodec(&stackCodec{}), WithCompressMinBytes(1<<20), opt)
	in := []byte{1}
	stream, err := client.CallServerStream(context.Background(), NewRequest(&in))
	if err != nil {
		return err
	}
	n := 0
	for stream.Receive() {
		n++
		if n > 4 {
			check(false, "the receive loop terminates")
			return nil
		}
	}
	serr := stream.Err()
	_ = stream.Close()
	return serr
}

func c06GRPCHeader(web bool) http.Header {
	if web {
		return http.Header{"Content-Type": {"application/grpc-web+proto"}}
	}
	return http.Header{"Content-Type": {"application/grpc+proto"}}
}

// HarnessC06GRPCStatus: the status block (grpc-status text, grpc-message,
// status details with a symbolic code) in trailers or headers.
//
//verif:harness property=C06 stubs=json,wire shard=variant:4 cross=z3-new
func HarnessC06GRPCStatus() {
	variant := nondetChoice("variant", 4)
	web := variant >= 2
	inHeaders := variant%2 == 1
	st := http.Header{}
	var gs string
	if nondetBool("longDigits") {
		// long digit strings: values beyond 32 and 64 bits
		gs = nondetString("grpcStatusDigits", bound("grpcStatusDigits", 11, 21))
		for i := 0; i < len(gs); i++ {
			assume(gs[i] >= '0' && gs[i] <= '9')
		}
	} else {
		gs = nondetString("grpcStatus", bound("grpcStatus", 2, 3))
		for i := 0; i < len(gs); i++ {
			assume(gs[i] > 0x20 && gs[i] <= 0x7e && gs[i] != ':')
		}
	}
	if gs != "" {
		st["Grpc-Status"] = []string{gs}
	}
	if nondetBool("hasDetails") {
		code := nondetUint32("detailsCode")
		bin := make([]byte, 4)
		binary.BigEndian.PutUint32(bin, code)
		bin = append(bin, 'd')
		st["Grpc-Status-Details-Bin"] = []string{EncodeBinaryHeader(bin)}
	}
	header := c06GRPCHeader(web)
	trailer := http.Header{}
	var body []byte
	if nondetBool("message") && !inHeaders {
		body = refFrame(0, []byte{7})
	}
	switch {
	case inHeaders:
		for k, v := range st {
			header[k] = v
		}
	case web:
		block := ""
		for k, v := range st {
			block += strings.ToLower(k) + ": " + v[0] + "\r\n"
		}
		body = append(body, refFrame(0x80, []byte(block))...)
	default:
		trailer = st
	}
	err := c06GRPCCall(web, 200, header, trailer, body)
	c06CheckSafe(err, "gRPC status block")
	if gs == "" {
		check(err != nil, "a gRPC response without grpc-status is never a success")
	}
}

// HarnessC06GRPCMessage: an arbitrary Grpc-Message (truncated or malformed
// percent escapes included) next to a failure status never crashes the client.
//
//verif:harness property=C06 stubs=json,wire cross=z3-new
func HarnessC06GRPCMessage() {
	web := nondetBool("web")
	m := nondetString("grpcMessage", bound("grpcMessage", 5, 6))
	for i := 0; i < len(m); i++ {
		assume(m[i] > 0x20 && m[i] <= 0x7e && m[i] != ':') // what a header value carries unchanged
	}
	st := http.Header{"Grpc-Status": {"9"}}
	if m != "" {
		st["Grpc-Message"] = []string{m}
	}
	header := c06GRPCHeader(web)
	trailer := http.Header{}
	var body []byte
	if web {
		block := "grpc-status: 9\r\n"
		if m != "" {
			block += "grpc-message: " + m + "\r\n"
		}
		body = refFrame(0x80, []byte(block))
	} else {
		trailer = st
	}
	err := c06GRPCCall(web, 200, header, trailer, body)
	check(err != nil && CodeOf(err) == CodeFailedPrecondition, "the failure status is reported whatever the Grpc-Message looks like")
	c06CheckSafe(err, "gRPC message")
}

// HarnessC06GRPCBody: arbitrary body bytes under an OK status block.
//
//verif:harness property=C06 stubs=json,wire
func HarnessC06GRPCBody() {
	web := nondetBool("web")
	body := nondetBytes("body", bound("body", 5, 6))
	if len(body) >= 5 {
		assume(body[1] == 0 && body[2] == 0 && body[3] == 0 && int(body[4]) <= 8)
	}
	header := c06GRPCHeader(web)
	trailer := http.Header{}
	if web {
		// a trailer frame is appended only where it cannot be swallowed into a
		// symbolic length prefix (that would need gigabyte allocations)
		if len(body) == 0 || (len(body) == 5 && body[4] == 0) {
			body = append(body, refFrame(0x80, []byte("grpc-status: 0\r\n"))...)
		}
	} else {
		trailer["Grpc-Status"] = []string{"0"}
	}
	err := c06GRPCCall(web, 200, header, trailer, body)
	c06CheckSafe(err, "gRPC body")
}

// HarnessC06GRPCHTTPStatus: non-200 statuses.
//
//verif:harness property=C06 stubs=json,wire
func HarnessC06GRPCHTTPStatus() {
	web := nondetBool("web")
	status := nondetInt("status")
	assume(status >= 0 && status <= 999 && status != 200)
	body := nondetBytes("body", 2)
	header := c06GRPCHeader(web)
	// a proxy or a confused server may still put a grpc-status on it
	statusHeader := []string{"", "0", "00", "5"}[nondetChoice("grpcStatusHeader", 4)]
	if statusHeader != "" {
		header.Set("Grpc-Status", statusHeader)
	}
	if nondetBool("framedBody") {
		body = refFrame(0, nil) // a well-formed empty message
	}
	err := c06GRPCCall(web, status, header, http.Header{}, body)
	check(err != nil, "a non-200 gRPC response is never a success")
	c06CheckSafe(err, "gRPC HTTP status")
	if err != nil && statusHeader != "5" {
		// no valid protocol-level error on the response: the HTTP status decides
		check(CodeOf(err) == refGRPCHTTPToCode(status), "a non-200 gRPC response gets the code derived from the HTTP status")
	}
}

// HarnessC06TransportError: HTTPClient.Do itself fails.
//
//verif:harness property=C06 stubs=json,wire
func HarnessC06TransportError() {
	kind := nondetChoice("kind", 4)
	var terr error
	switch kind {
	case 0:
		terr = errOpaqueTransport
	case 1:
		terr = context.Canceled
	case 2:
		terr = context.DeadlineExceeded
	default:
		terr = errors.New("stream error: stream ID 1; REFUSED_STREAM; received from peer")
	}
	tr := &failingTransport{err: terr}
	proto := nondetChoice("proto", 3)
	client := NewClient[[]byte, []byte](tr, stackURL, stackClientOptions(proto)...)
	in := []byte{1}
	_, err := client.CallUnary(context.Background(), NewRequest(&in))
	check(err != nil, "a failed transport is never a success")
	c06CheckSafe(err, "transport failure")
	switch kind {
	case 1:
		check(CodeOf(err) == CodeCanceled, "a cancelled transport call is reported as canceled")
	case 2:
		check(CodeOf(err) == CodeDeadlineExceeded, "an expired transport call is reported as deadline_exceeded")
	case 3:
		check(CodeOf(err) == CodeUnavailable, "REFUSED_STREAM is reported as unavailable")
	}
}

type failingTransport struct{ err error }

func (t *failingTransport) Do(req *http.Request) (*http.Response, error) {
	_, _ = io.Copy(io.Discard, req.Body)
	_ = req.Body.Close()
	return nil, t.err
}

// HarnessC06CompressedGarbage: the server declares a registered compression
// and sends arbitrary bytes as the compressed payload.  The decompressor has
// the life cycle of the default gzip.Reader (gzipLikeDecompressor): the very
// first compressed response a fresh client sees may fail in Reset.  The call
// must fail with a coded error (or succeed when the bytes happen to be a
// valid stream) - never panic - and a second, well-formed response on the
// same client must then decode correctly.
//
//verif:harness property=C06 stubs=json,wire shard=proto:3
func HarnessC06CompressedGarbage() {
	proto := nondetChoice("proto", 3)
	unary := proto == 0 && nondetBool("unary")
	payload := nondetBytes("compressed", bound("garbageLen", 3, 4))
	valid := len(payload) >= 1 && payload[0] == 0xC5
	mk := func(payload []byte) *http.Response { return c06CompressedResponse(proto, unary, payload) }
	tr := &cannedTransport{resp: mk(payload)}
	opts := stackClientOptions(proto, WithAcceptCompression("gzip", func() Decompressor { return &gzipLikeDecompressor{} }, func() Compressor { return &xorCompressor{} }))
	client := NewClient[[]byte, []byte](tr, stackURL, opts...)
	call := func() ([]byte, error) {
		in := []byte{1}
		if proto == 0 && !unary {
			stream, err := client.CallServerStream(context.Background(), NewRequest(&in))
			if err != nil {
				return nil, err
			}
			var got []byte
			n := 0
			for stream.Receive() {
				got = append([]byte{}, *stream.Msg()...)
				n++
				if n > 2 {
					check(false, "the receive loop terminates")
					break
				}
			}
			err = stream.Err()
			_ = stream.Close()
			if err == nil {
				check(n == 1, "one data frame is one message")
			}
			return got, err
		}
		res, err := client.CallUnary(context.Background(), NewRequest(&in))
		if err != nil {
			return nil, err
		}
		return *res.Msg, nil
	}
	got, err := call()
	c06CheckSafe(err, "compressed garbage")
	switch {
	case len(payload) == 0:
		// a zero-length message is legal whatever the compressed flag says
		check(err == nil && len(got) == 0, "an empty compressed payload is the empty message")
	case valid:
		check(err == nil, "a validly compressed response is accepted")
		if err == nil {
			want := make([]byte, len(payload)-1)
			for i, b := range payload[1:] {
				want[i] = b ^ 0x5A
			}
			check(bytesEq(got, want), "a validly compressed response decodes to its message")
		}
	default:
		check(err != nil, "a corrupt compressed payload is an error, not a message")
	}
	// the same client afterwards
	tr.resp = mk([]byte{0xC5, 0x41 ^ 0x5A})
	got2, err2 := call()
	check(err2 == nil, "after a corrupt response the client still decodes a well-formed compressed response")
	if err2 == nil {
		check(bytesEq(got2, []byte{0x41}), "the later response decodes to its own message")
	}
}

// c06CompressedResponse: a 200 response whose single message is marked as
// compressed with "gzip" and carries payload as its compressed bytes.
func c06CompressedResponse(proto int, unary bool, payload []byte) *http.Response {
	header := http.Header{}
	var body []byte
	switch {
	case unary:
		header.Set("Content-Type", "application/proto")
		header.Set("Content-Encoding", "gzip")
		body = payload
	case proto == 0:
		header.Set("Content-Type", "application/connect+proto")
		header.Set("Connect-Content-Encoding", "gzip")
		body = append(refFrame(1, payload), refFrame(0x02, c06EndStream(false, nil, "", ""))...)
	case proto == 1:
		header.Set("Content-Type", "application/grpc+proto")
		header.Set("Grpc-Encoding", "gzip")
		body = refFrame(1, payload)
	default:
		header.Set("Content-Type", "application/grpc-web+proto")
		header.Set("Grpc-Encoding", "gzip")
		body = append(refFrame(1, payload), refFrame(0x80, []byte("grpc-status: 0\r\n"))...)
	}
	resp := &http.Response{StatusCode: 200, Status: "200 OK", ProtoMajor: 2, Header: header, Trailer: http.Header{}, Body: io.NopCloser(&wholeReader{data: body})}
	if proto == 1 {
		resp.Trailer.Set("Grpc-Status", "0")
	}
	return resp
}

// HarnessC06StreamNon200JSON: a streaming Connect call answered by something
// that is not the handler - a proxy's or gateway's non-200 response with a
// JSON body (with or without code and message fields): the call fails with
// the code derived from the HTTP status unless the body is a valid protocol
// error, and never with the zero code.
//
//verif:harness property=C06 stubs=json,wire
func HarnessC06StreamNon200JSON() {
	status := []int{400, 404, 429, 503}[nondetChoice("status", 4)]
	hasCode, code := c06CodeString()
	msg := nondetString("message", 1)
	assumeJSONSafe(msg)
	body := c06WireError(hasCode, code, msg)
	header := http.Header{"Content-Type": {"application/json"}}
	tr := &cannedTransport{resp: &http.Response{StatusCode: status, Status: "status text", ProtoMajor: 2, Header: header, Body: io.NopCloser(&wholeReader{data: body})}}
	client := NewClient[[]byte, []byte](tr, stackURL, WithCodec(&stackCodec{}), WithCompressMinBytes(1<<20))
	in := []byte{1}
	var err error
	switch nondetChoice("kind", 3) {
	case 0:
		stream, serr := client.CallServerStream(context.Background(), NewRequest(&in))
		err = serr
		if serr == nil {
			for stream.Receive() {
				check(false, "a non-200 response delivers no message")
				break
			}
			err = stream.Err()
			_ = stream.Close()
		}
	case 1:
		stream := client.CallClientStream(context.Background())
		_ = stream.Send(&in)
		_, err = stream.CloseAndReceive()
	default:
		stream := client.CallBidiStream(context.Background())
		_ = stream.Send(&in)
		_ = stream.CloseRequest()
		_, err = stream.Receive()
		_ = stream.CloseResponse()
	}
	check(err != nil, "a non-200 streaming response is never a success")
	c06CheckSafe(err, "Connect stream, non-200 JSON response")
}
