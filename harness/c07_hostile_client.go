package connect

import (
	"context"
	"encoding/json"
	"net/http"
	"strconv"
)

// C07 - whatever a client sends, the handler rejects it safely.

// c07ResponseCode extracts the code the peer would see from a recorded
// response (0 = success), using the reference rules of C05 plus the real
// error decoders for the JSON parts.
func c07ResponseCode(proto int, unary bool, status int, header, trailer http.Header, body []byte) (code int, wellFormed bool) {
	switch {
	case proto == 0 && unary:
		if status == 200 {
			return 0, true
		}
		var we connectWireError
		if err := json.Unmarshal(body, &we); err != nil {
			return -1, false
		}
		if header.Get("Content-Type") != "application/json" {
			return -1, false
		}
		return int(we.code), status == connectCodeToHTTP(we.code)
	case proto == 0:
		if status != 200 {
			return -1, false
		}
		frames, ok := refParseFrames(body)
		if !ok || len(frames) == 0 || frames[len(frames)-1].flags&0x02 == 0 {
			return -1, false
		}
		for _, f := range frames[:len(frames)-1] {
			if f.flags&0x02 != 0 {
				return -1, false
			}
		}
		var end connectEndStreamMessage
		if err := json.Unmarshal(frames[len(frames)-1].payload, &end); err != nil {
			return -1, false
		}
		if end.Error == nil {
			return 0, true
		}
		return int(end.Error.code), true
	}
	if status != 200 {
		return -1, false
	}
	hl, tl := lowerKeys(header), lowerKeys(trailer)
	var st []string
	places := 0
	if v, ok := hl["grpc-status"]; ok {
		places++
		st = v
	}
	if v, ok := tl["grpc-status"]; ok {
		places++
		st = v
	}
	frames, ok := refParseFrames(body)
	if !ok {
		return -1, false
	}
	for i, f := range frames {
		if f.flags&0x80 != 0 {
			if proto != 2 || i != len(frames)-1 {
				return -1, false
			}
			tr, tok := refWebTrailers(f.payload)
			if !tok {
				return -1, false
			}
			if v, ok := tr["grpc-status"]; ok {
				places++
				st = v
			}
		}
	}
	if places != 1 || len(st) != 1 {
		return -1, false
	}
	n, err := strconv.Atoi(st[0])
	if err != nil || n < 0 {
		return -1, false
	}
	return n, true
}

// HarnessC07Request: 4 RPC kinds x 3 protocols; symbolic encoding header,
// timeout header, read limit and body bytes (arbitrary, cut by a transport
// fault at a symbolic point).
//
//verif:harness property=C07 stubs=json,wire,ctx shard=variant:12
func HarnessC07Request() {
	variant := nondetChoice("variant", 12)
	kind, proto := variant/3, variant%3
	userCalls := 0
	receivedOK := 0
	const limit = 4
	opts := []HandlerOption{WithCodec(&stackCodec{}), WithCompressMinBytes(1 << 20), c08XorHandler("gzip"), WithReadMaxBytes(limit)}
	var handler *Handler
	switch kind {
	case 0:
		handler = NewUnaryHandler("/pkg.Svc/Method", func(ctx context.Context, req *Request[[]byte]) (*Response[[]byte], error) {
			userCalls++
			receivedOK++
			check(len(*req.Msg) <= limit, "user code never receives a message above the read limit")
			out := []byte{1}
			return NewResponse(&out), nil
		}, opts...)
	case 1:
		handler = NewClientStreamHandler("/pkg.Svc/Method", func(ctx context.Context, s *ClientStream[[]byte]) (*Response[[]byte], error) {
			userCalls++
			for s.Receive() {
				receivedOK++
				check(len(*s.Msg()) <= limit, "user code never receives a message above the read limit")
			}
			if err := s.Err(); err != nil {
				return nil, err
			}
			out := []byte{1}
			return NewResponse(&out), nil
		}, opts...)
	case 2:
		handler = NewServerStreamHandler("/pkg.Svc/Method", func(ctx context.Context, req *Request[[]byte], s *ServerStream[[]byte]) error {
			userCalls++
			receivedOK++
			check(len(*req.Msg) <= limit, "user code never receives a message above the read limit")
			out := []byte{1}
			return s.Send(&out)
		}, opts...)
	default:
		handler = NewBidiStreamHandler("/pkg.Svc/Method", func(ctx context.Context, s *BidiStream[[]byte, []byte]) error {
			userCalls++
			for {
				m, err := s.Receive()
				if err != nil {
					if isEOF(err) {
						return nil
					}
					return err
				}
				receivedOK++
				check(len(*m) <= limit, "user code never receives a message above the read limit")
			}
		}, opts...)
	}
	unaryConnect := proto == 0 && kind == 0
	ct := []string{"application/connect+proto", "application/grpc+proto", "application/grpc-web+proto"}[proto]
	if unaryConnect {
		ct = "application/proto"
	}
	encHeader := []string{connectStreamingHeaderCompression, grpcHeaderCompression, grpcHeaderCompression}[proto]
	if unaryConnect {
		encHeader = connectUnaryHeaderCompression
	}
	timeoutHeader := []string{connectHeaderTimeout, grpcHeaderTimeout, grpcHeaderTimeout}[proto]
	header := http.Header{"Content-Type": {ct}}
	// two sub-spaces (their product is too large to be useful): either the
	// headers are hostile and the body is one small valid message, or the
	// headers are plain and the body is arbitrary.
	hostileHeaders := nondetBool("hostileHeaders")
	enc, timeout := "", ""
	var body []byte
	if hostileHeaders {
		// ("Gzip": a registered name in another letter case is a different, unknown name)
		enc = []string{"", "identity", "gzip", "zz", "Gzip"}[nondetChoice("encoding", 5)]
		timeout = nondetString("timeout", bound("timeoutLen", 3, 3))
		body = []byte{0x41}
		if !unaryConnect {
			body = refFrame(0, []byte{0x41})
		}
		if enc == "gzip" {
			// a message that really is compressed with the registered algorithm
			if unaryConnect {
				body = []byte{0xC5, 0x41 ^ 0x5A}
			} else {
				body = refFrame(1, []byte{0xC5, 0x41 ^ 0x5A})
			}
		}
	} else {
		body = nondetBytes("body", bound("bodyLen", 6, 7))
	}
	if enc != "" {
		header[encHeader] = []string{enc}
	}
	if timeout != "" {
		header[timeoutHeader] = []string{timeout}
	}
	if !unaryConnect && !hostileHeaders && len(body) >= 5 {
		// keep declared sizes small or clearly oversize (<= 2^28) so that
		// buffers stay within the model
		sz := int(body[1])<<24 | int(body[2])<<16 | int(body[3])<<8 | int(body[4])
		assume(sz <= 6 || (sz >= 8192 && sz <= 1<<28))
	}
	cut := len(body)
	faultKind := 0
	if !hostileHeaders {
		cut = nondetInt("cut")
		assume(cut >= 0 && cut <= len(body))
		if cut < len(body) {
			faultKind = nondetChoice("kind", 3)
		}
	}
	fr := &faultReader{data: body, cut: cut, kind: faultKind}
	rec := newRecWriter()
	req := &http.Request{Method: "POST", ProtoMajor: 2, Header: header, Body: fr}
	handler.ServeHTTP(rec, req)
	status, rh, rt, rbody := rec.finish()

	check(userCalls <= 1, "user code runs at most once")
	code, wellFormed := c07ResponseCode(proto, unaryConnect, status, rh, rt, rbody)
	check(wellFormed, "the response is well-formed for the protocol selected by the Content-Type")
	if !wellFormed {
		return
	}
	// what the reference says about this request
	timeoutValid := true
	if timeout != "" {
		if proto == 0 {
			timeoutValid = allDigits(timeout)
		} else {
			_, okUnit := refUnit(timeout[len(timeout)-1])
			num := timeout[:len(timeout)-1]
			timeoutValid = okUnit && num != "" && allDigits(num)
			if !timeoutValid && okUnit && len(num) > 1 && (num[0] == '+' || num[0] == '-') && allDigits(num[1:]) {
				// "+5S", "-0u": a redundant sign on a non-negative value is not
				// classified by the property (see C10); a negative timeout
				// ("-5S") is invalid and stays classified
				if num[0] == '+' || allZeros(num[1:]) {
					return
				}
			}
		}
		if proto == 0 && !timeoutValid && len(timeout) > 1 && (timeout[0] == '+' || timeout[0] == '-') && allDigits(timeout[1:]) {
			if timeout[0] == '+' || allZeros(timeout[1:]) {
				return // redundantly signed milliseconds: not classified by the property
			}
		}
	}
	switch {
	case enc == "zz" || enc == "Gzip":
		check(code == int(CodeUnimplemented), "unknown request compression is rejected as unimplemented")
		check(userCalls == 0, "user code does not run when the request compression is unknown")
	case !timeoutValid:
		check(code == int(CodeInvalidArgument), "an invalid timeout is rejected as invalid_argument")
		check(userCalls == 0, "user code does not run when the timeout is invalid")
	default:
		if code == 0 {
			// success: only possible if the whole body arrived cleanly
			// (a failure that happens after the part of the body the handler
			// consumed - e.g. behind the single message of a unary call - is
			// never seen by it)
			check(!fr.faulted, "a request whose body failed under the handler's eyes is never answered with success")
		}
		check(receivedOK == 0 || userCalls == 1, "messages reach user code only inside its single invocation")
		if !unaryConnect {
			// reference: only complete frames with flags 0/1 at the start of the
			// delivered bytes are messages
			lead := 0
			rest := body[:cut]
			for len(rest) >= 5 {
				n := int(rest[1])<<24 | int(rest[2])<<16 | int(rest[3])<<8 | int(rest[4])
				if rest[0] > 1 || len(rest) < 5+n {
					break
				}
				lead++
				rest = rest[5+n:]
			}
			check(receivedOK <= lead, "only well-formed data frames are ever delivered to user code as messages")
			// a complete envelope whose flags are not a request's (anything but
			// "compressed") is malformed framing: never success
			if len(rest) >= 5 && rest[0] > 1 {
				n := int(rest[1])<<24 | int(rest[2])<<16 | int(rest[3])<<8 | int(rest[4])
				if len(rest) >= 5+n && c07FlagsClassified(proto, rest[0]) {
					check(code != 0, "an envelope with flags no request may carry is malformed framing, never answered with success")
				}
			}
		}
	}
}

func isEOF(err error) bool {
	for err != nil {
		if err == errEOF() {
			return true
		}
		u, ok := err.(interface{ Unwrap() error })
		if !ok {
			return false
		}
		err = u.Unwrap()
	}
	return false
}

// HarnessC07ContentType: hostile spellings of the Content-Type: a registered
// media type with the case of one letter flipped and/or up to four arbitrary
// bytes appended (parameters such as ";a=b", blanks, a "+codec" suffix).  A
// request whose Content-Type is not literally in the advertised Accept-Post
// set must get the bare 415 and never reach user code; whatever the spelling,
// the handler must not panic.
//
//verif:harness property=C07 stubs=json,wire,ctx shard=variant:6
func HarnessC07ContentType() {
	variant := nondetChoice("variant", 6)
	kind, proto := variant/3, variant%3 // kind 0 unary, 1 bidi
	userCalls := 0
	opts := []HandlerOption{WithCodec(&stackCodec{}), WithCompressMinBytes(1 << 20)}
	var handler *Handler
	if kind == 0 {
		handler = NewUnaryHandler("/pkg.Svc/Method", func(ctx context.Context, req *Request[[]byte]) (*Response[[]byte], error) {
			userCalls++
			out := []byte{1}
			return NewResponse(&out), nil
		}, opts...)
	} else {
		handler = NewBidiStreamHandler("/pkg.Svc/Method", func(ctx context.Context, s *BidiStream[[]byte, []byte]) error {
			userCalls++
			for {
				if _, err := s.Receive(); err != nil {
					if isEOF(err) {
						return nil
					}
					return err
				}
			}
		}, opts...)
	}
	// the advertised set, from a probe with an unsupported type
	probe := newRecWriter()
	handler.ServeHTTP(probe, &http.Request{Method: "POST", ProtoMajor: 2, Header: http.Header{"Content-Type": {"x/y"}}, Body: &faultReader{}})
	pstatus, ph, _, _ := probe.finish()
	check(pstatus == 415, "an unsupported Content-Type is answered with 415")
	advertised := map[string]bool{}
	ap := ph.Get("Accept-Post")
	for ap != "" {
		item := ap
		if i := indexOf(ap, ", "); i >= 0 {
			item, ap = ap[:i], ap[i+2:]
		} else {
			ap = ""
		}
		advertised[item] = true
	}
	base := []string{"application/connect+proto", "application/grpc", "application/grpc-web+proto"}[proto]
	if proto == 0 && kind == 0 {
		base = "application/proto"
	}
	check(advertised[base], "the protocol's own media type is advertised")
	ctb := []byte(base)
	if nondetBool("flipCase") {
		i := nondetInt("flipAt")
		assume(i >= 0 && i < len(ctb))
		c := ctb[i]
		assume(c >= 'a' && c <= 'z')
		ctb[i] = c - 'a' + 'A'
	}
	suffix := nondetString("suffix", bound("ctSuffixLen", 4, 5))
	ct := string(ctb) + suffix
	body := []byte{0x41}
	if !(proto == 0 && kind == 0) {
		body = refFrame(0, []byte{0x41})
	}
	rec := newRecWriter()
	req := &http.Request{Method: "POST", ProtoMajor: 2, Header: http.Header{"Content-Type": {ct}}, Body: &faultReader{data: body, cut: len(body)}}
	handler.ServeHTTP(rec, req)
	status, rh, _, rbody := rec.finish()
	if !advertised[ct] {
		check(status == 415, "a Content-Type outside the advertised set gets 415 Unsupported Media Type")
		check(userCalls == 0, "user code does not run for an unsupported Content-Type")
		check(len(rbody) == 0, "the 415 response is bare")
		check(rh.Get("Accept-Post") == ph.Get("Accept-Post"), "the 415 response advertises the supported types")
	} else {
		check(status == 200, "an advertised Content-Type is served")
	}
}

func indexOf(s, sub string) int {
	for i := 0; i+len(sub) <= len(s); i++ {
		if s[i:i+len(sub)] == sub {
			return i
		}
	}
	return -1
}

func allZeros(s string) bool {
	for i := 0; i < len(s); i++ {
		if s[i] != '0' {
			return false
		}
	}
	return true
}

// HarnessC07Oversize: a complete message above the handler's read limit
// (limit 2, payload of 3 arbitrary bytes; sent plain or - for the size after
// decompression - compressed), for each RPC kind and protocol: it is never
// handed to user code and the peer is told invalid_argument or
// resource_exhausted, never success.
//
//verif:harness property=C07 stubs=json,wire,ctx shard=variant:12
func HarnessC07Oversize() {
	variant := nondetChoice("variant", 12)
	kind, proto := variant/3, variant%3
	const limit = 2
	delivered := 0
	opts := []HandlerOption{WithCodec(&stackCodec{}), WithCompressMinBytes(1 << 20), c08XorHandler("gzip"), WithReadMaxBytes(limit)}
	seen := func(n int) {
		delivered++
		check(n <= limit, "user code never receives a message above the read limit")
	}
	var handler *Handler
	switch kind {
	case 0:
		handler = NewUnaryHandler("/pkg.Svc/Method", func(ctx context.Context, req *Request[[]byte]) (*Response[[]byte], error) {
			seen(len(*req.Msg))
			out := []byte{1}
			return NewResponse(&out), nil
		}, opts...)
	case 1:
		handler = NewClientStreamHandler("/pkg.Svc/Method", func(ctx context.Context, s *ClientStream[[]byte]) (*Response[[]byte], error) {
			for s.Receive() {
				seen(len(*s.Msg()))
			}
			if err := s.Err(); err != nil {
				return nil, err
			}
			out := []byte{1}
			return NewResponse(&out), nil
		}, opts...)
	case 2:
		handler = NewServerStreamHandler("/pkg.Svc/Method", func(ctx context.Context, req *Request[[]byte], s *ServerStream[[]byte]) error {
			seen(len(*req.Msg))
			out := []byte{1}
			return s.Send(&out)
		}, opts...)
	default:
		handler = NewBidiStreamHandler("/pkg.Svc/Method", func(ctx context.Context, s *BidiStream[[]byte, []byte]) error {
			for {
				m, err := s.Receive()
				if err != nil {
					if isEOF(err) {
						return nil
					}
					return err
				}
				seen(len(*m))
			}
		}, opts...)
	}
	payload := nondetBytesN("payload", 3)
	compressed := nondetBool("compressed")
	unaryConnect := proto == 0 && kind == 0
	ct := []string{"application/connect+proto", "application/grpc+proto", "application/grpc-web+proto"}[proto]
	encHeader := []string{connectStreamingHeaderCompression, grpcHeaderCompression, grpcHeaderCompression}[proto]
	wire := payload
	if compressed {
		wire = append([]byte{0xC5}, payload[0]^0x5A, payload[1]^0x5A, payload[2]^0x5A)
	}
	var body []byte
	if unaryConnect {
		ct, encHeader, body = "application/proto", connectUnaryHeaderCompression, wire
	} else if compressed {
		body = refFrame(1, wire)
	} else {
		body = refFrame(0, wire)
	}
	header := http.Header{"Content-Type": {ct}}
	if compressed {
		header[encHeader] = []string{"gzip"}
	}
	rec := newRecWriter()
	req := &http.Request{Method: "POST", ProtoMajor: 2, Header: header, Body: &faultReader{data: body, cut: len(body)}}
	handler.ServeHTTP(rec, req)
	status, rh, rt, rbody := rec.finish()
	code, wellFormed := c07ResponseCode(proto, unaryConnect, status, rh, rt, rbody)
	check(wellFormed, "the response is well-formed")
	check(delivered == 0, "an oversize message is not delivered")
	check(code == int(CodeInvalidArgument) || code == int(CodeResourceExhausted), "an oversize message reaches the peer as invalid_argument or resource_exhausted, never as success")
}

// c07FlagsClassified: which invalid request flags the check classifies.  A
// protocol's own end marker sent by the client (0x02 on a Connect stream,
// 0x80 on gRPC-Web) is read by the shared envelope code as an end of stream;
// the property's text does not say what a handler owes a client that sends
// the server's marker, so those two are left out.
func c07FlagsClassified(proto int, flags byte) bool {
	switch proto {
	case 0:
		return flags&0x02 == 0
	case 2:
		return flags&0x80 == 0
	}
	return true
}
