package connect

import (
	"bytes"
	"context"
	"errors"
	"io"
	"net/http"
	"strings"
)

// C08 - compression is negotiated so both sides can decode, and is lossless.

// ("zip" is a substring of "gzip": membership in the advertised list is by token, not by substring)
var c08Universe = []string{"a", "zip", "gzip", "zz"}

// HarnessC08Negotiate: negotiateCompression against a reference predicate for
// symbolic registration lists (order, duplicates), sent and accepted names
// and separators.
//
//verif:harness property=C08
func HarnessC08Negotiate() {
	nreg := nondetChoice("nreg", bound("registrations", 2, 3)+1)
	pools := map[string]*compressionPool{}
	var regOrder []string
	for i := 0; i < nreg; i++ {
		name := c08Universe[nondetChoice("reg", 3)] // "zz" is never registered
		pools[name] = newXorPool()
		regOrder = append(regOrder, name)
	}
	ro := newReadOnlyCompressionPools(pools, regOrder)
	// reference: most recently registered first, no duplicates
	var refNames []string
	for i := len(regOrder) - 1; i >= 0; i-- {
		if !containsStr(refNames, regOrder[i]) {
			refNames = append(refNames, regOrder[i])
		}
	}
	check(ro.CommaSeparatedNames() == strings.Join(refNames, ","), "supported algorithms are listed most recently registered first, without duplicates")

	sentChoices := []string{"", "identity", "a", "zip", "gzip", "zz"}
	sent := sentChoices[nondetChoice("sent", len(sentChoices))]
	nacc := nondetChoice("nacc", bound("accepted", 2, 3)+1)
	seps := []string{",", ", ", " "}
	accept := ""
	var accList []string
	for i := 0; i < nacc; i++ {
		if i > 0 {
			accept += seps[nondetChoice("sep", 3)]
		}
		n := c08Universe[nondetChoice("acc", 4)]
		accept += n
		accList = append(accList, n)
	}
	reqC, resC, err := negotiateCompression(ro, sent, accept)
	sentUnknown := sent != "" && sent != "identity" && !containsStr(refNames, sent)
	if sentUnknown {
		check(err != nil && err.Code() == CodeUnimplemented, "a request compressed with an unsupported algorithm is rejected as unimplemented")
		check(err == nil || strings.Contains(err.Message(), ro.CommaSeparatedNames()), "the rejection lists the supported algorithms")
		return
	}
	check(err == nil, "supported request compression is accepted")
	if err != nil {
		return
	}
	wantReq := "identity"
	if sent != "" && sent != "identity" {
		wantReq = sent
	}
	check(reqC == wantReq, "the request is decompressed with the algorithm the client named")
	wantRes := wantReq
	if wantRes == "identity" {
		for _, n := range accList {
			if containsStr(refNames, n) {
				wantRes = n
				break
			}
		}
	}
	check(resC == wantRes, "the response uses the request's algorithm, else the client's most preferred mutually supported one")
	check(resC == "identity" || containsStr(refNames, resC), "the response is only compressed with a supported algorithm")
}

// typestate decompressor: Read is only legal after Reset since the last Close.
type c08Decompressor struct {
	xorDecompressor
	ready bool
	log   *[]string
}

func (d *c08Decompressor) Reset(r io.Reader) error {
	d.ready = true
	return d.xorDecompressor.Reset(r)
}

func (d *c08Decompressor) Read(p []byte) (int, error) {
	check(d.ready, "a pooled decompressor is Reset before it is read")
	return d.xorDecompressor.Read(p)
}

func (d *c08Decompressor) Close() error {
	d.ready = false
	*d.log = append(*d.log, "close")
	return d.xorDecompressor.Close()
}

// HarnessC08PoolIsolation: a corrupt compressed message fails alone; the next
// (valid) message through the same pool decompresses correctly whatever
// object the pool hands back; compression is lossless.
//
//verif:harness property=C08 pool=any
func HarnessC08PoolIsolation() {
	var log []string
	pool := newCompressionPool(
		func() Decompressor { return &c08Decompressor{log: &log} },
		func() Compressor { return &xorCompressor{} },
	)
	plain := nondetBytes("plain", bound("len", 2, 3))
	wire := &bytes.Buffer{}
	if err := pool.Compress(wire, bytes.NewBuffer(append([]byte{}, plain...))); err != nil {
		check(false, "compressing succeeds")
		return
	}
	// first a message that fails: corrupt (arbitrary bytes that do not start
	// with the marker), or well-formed but larger than the read limit
	limit := int64(nondetChoice("limit", 2) * 8) // unlimited or 8
	var err0 *Error
	if nondetBool("firstIsOversize") {
		limit = 1
		big := &bytes.Buffer{}
		if err := pool.Compress(big, bytes.NewBuffer([]byte{1, 2, 3})); err != nil {
			check(false, "compressing succeeds")
			return
		}
		err0 = pool.Decompress(&bytes.Buffer{}, big, limit)
		check(err0 != nil, "a message that decompresses past the limit is rejected")
		limit = 8
	} else {
		corrupt := nondetBytes("corrupt", 2)
		if len(corrupt) > 0 {
			assume(corrupt[0] != 0xC5)
		}
		dst0 := &bytes.Buffer{}
		err0 = pool.Decompress(dst0, bytes.NewBuffer(corrupt), limit)
		check(err0 != nil, "a corrupt compressed message is rejected")
	}
	check(err0 == nil || err0.Code() == CodeInvalidArgument || err0.Code() == CodeResourceExhausted, "a rejected compressed message is rejected as invalid_argument or resource_exhausted")
	closesAfterCorrupt := len(log)
	check(closesAfterCorrupt >= 1, "the decompressor is closed on the error path before it returns to the pool")
	// two checkouts that are out at the same time must be different objects
	// (a decompressor returned to the pool twice would be handed to two calls)
	d1, e1 := pool.getDecompressor(bytes.NewBuffer(nil))
	d2, e2 := pool.getDecompressor(bytes.NewBuffer(nil))
	check(e1 == nil && e2 == nil, "checking out decompressors succeeds")
	check(d1 != d2, "two calls never share a pooled decompressor after a rejected message")
	_ = pool.putDecompressor(d1)
	_ = pool.putDecompressor(d2)
	// then the valid one through the same pool
	dst := &bytes.Buffer{}
	err := pool.Decompress(dst, wire, limit)
	check(err == nil, "a valid message after a corrupt one is accepted")
	check(err != nil || bytesEq(dst.Bytes(), plain), "every compressed message decompresses to the original bytes")
}

func c08XorClient(name string) ClientOption {
	return WithAcceptCompression(name, func() Decompressor { return &xorDecompressor{} }, func() Compressor { return &xorCompressor{} })
}

func c08XorHandler(name string) HandlerOption {
	return WithCompression(name, func() Decompressor { return &xorDecompressor{} }, func() Compressor { return &xorCompressor{} })
}

// HarnessC08EndToEnd: real client and handler; the built-in "gzip" name is
// re-registered with the harness compressor on both sides (the real gzip is
// not encoded), a second algorithm "xor" is present on either side or not;
// symbolic send-compression choice, compress-min-bytes and payload.
//
//verif:harness property=C08 stubs=json,wire shard=proto:3
func HarnessC08EndToEnd() {
	proto := nondetChoice("proto", 3)
	clientHas := nondetBool("clientHasXor")
	handlerHas := nondetBool("handlerHasXor")
	sendName := []string{"", "gzip", "xor"}[nondetChoice("send", 3)]
	if sendName == "xor" && !clientHas {
		return // newClientConfig refuses an unregistered send compression (validated separately)
	}
	minBytes := nondetInt("minBytes")
	assume(minBytes >= 0 && minBytes <= 3)
	msg := nondetBytes("msg", bound("msgLen", 2, 3))
	userCalls := 0
	hopts := []HandlerOption{WithCodec(&stackCodec{}), WithCompressMinBytes(minBytes), c08XorHandler("gzip")}
	if handlerHas {
		hopts = append(hopts, c08XorHandler("xor"))
	}
	handler := NewUnaryHandler("/pkg.Svc/Method", func(ctx context.Context, req *Request[[]byte]) (*Response[[]byte], error) {
		userCalls++
		out := append([]byte{}, *req.Msg...)
		return NewResponse(&out), nil
	}, hopts...)
	copts := []ClientOption{WithCodec(&stackCodec{}), WithCompressMinBytes(minBytes), c08XorClient("gzip")}
	if clientHas {
		copts = append(copts, c08XorClient("xor"))
	}
	if sendName != "" {
		copts = append(copts, WithSendCompression(sendName))
	}
	switch proto {
	case 1:
		copts = append(copts, WithGRPC())
	case 2:
		copts = append(copts, WithGRPCWeb())
	}
	tr := &stackTransport{handler: handler}
	client := NewClient[[]byte, []byte](tr, stackURL, copts...)
	in := append([]byte{}, msg...)
	res, err := client.CallUnary(context.Background(), NewRequest(&in))
	encHeader := []string{connectUnaryHeaderCompression, grpcHeaderCompression, grpcHeaderCompression}[proto]
	named := tr.reqHeader.Get(encHeader)
	if named == "xor" && !handlerHas {
		check(err != nil && CodeOf(err) == CodeUnimplemented, "a request whose encoding header names an algorithm the handler lacks is rejected as unimplemented")
		if ce, ok := asError(err); ok {
			check(strings.Contains(ce.Message(), "gzip"), "the rejection lists the supported algorithms")
		}
		check(userCalls == 0, "user code does not run when the request compression is unsupported")
		return
	}
	check(err == nil && res != nil, "the call succeeds when both sides can decode")
	if err != nil || res == nil {
		return
	}
	check(bytesEq(*res.Msg, msg), "the payload survives compression in both directions")
	check(userCalls == 1, "user code runs once")
	// request side
	wantReqCompressed := sendName != "" && len(msg) >= minBytes
	if proto == 0 {
		check((named != "") == wantReqCompressed, "a unary Connect request names its encoding iff the body was compressed")
		check(named == "" || named == sendName, "the encoding named is the one the client chose")
	} else if len(tr.reqBody) >= 5 {
		flagged := tr.reqBody[0]&flagEnvelopeCompressed != 0
		check(flagged == wantReqCompressed, "an enveloped request message is flagged compressed iff it reaches the minimum size and compression was chosen")
		check(!flagged || named == sendName, "a message is flagged compressed only if the encoding header names the algorithm")
	}
	// response side
	_, rh, _, rbody := tr.rec.finish()
	resEnc := rh.Get(encHeader)
	// reference: the request's algorithm, else the client's most preferred mutually supported one
	wantRes := sendName
	if wantRes == "" {
		wantRes = "gzip"
		if clientHas && handlerHas {
			wantRes = "xor"
		}
	}
	if proto == 0 {
		// unary Connect names the encoding only when the body really was compressed
		check(resEnc == "" || resEnc == wantRes, "the handler compresses with the negotiated algorithm")
		check((resEnc != "") == (len(msg) >= minBytes), "a unary Connect response names its encoding iff the body was compressed")
	} else {
		check(resEnc == wantRes, "the handler names the negotiated algorithm in the protocol's encoding header")
		if len(rbody) >= 5 {
			flagged := rbody[0]&flagEnvelopeCompressed != 0
			check(flagged == (len(msg) >= minBytes), "a response message is flagged compressed iff it reaches the minimum size")
		}
	}
}

// HarnessC08ClientPreference: what the client advertises.  Every client
// accepts the built-in gzip; algorithms registered with
// WithAcceptCompression are preferred over it, the most recently registered
// first, each name once.  The accept-encoding header of the request is
// compared with that reference order for every sequence of up to three
// registrations over {gzip, xor, br}.
//
//verif:harness property=C08 stubs=json,wire shard=proto:3
func HarnessC08ClientPreference() {
	proto := nondetChoice("proto", 3)
	names := []string{"gzip", "xor", "br"}
	n := nondetChoice("registrations", 4)
	order := []string{"gzip"} // the default, registered first
	copts := stackClientOptions(proto)
	for i := 0; i < n; i++ {
		name := names[nondetChoice("name", 3)]
		order = append(order, name)
		copts = append(copts, c08XorClient(name))
	}
	var want []string
	for i := len(order) - 1; i >= 0; i-- {
		if !containsStr(want, order[i]) {
			want = append(want, order[i])
		}
	}
	header := http.Header{"Content-Type": {[]string{"application/proto", "application/grpc+proto", "application/grpc-web+proto"}[proto]}}
	body := []byte{7}
	if proto != 0 {
		body = refFrame(0, []byte{7})
		if proto == 2 {
			body = append(body, refFrame(0x80, []byte("grpc-status: 0\r\n"))...)
		}
	}
	resp := &http.Response{StatusCode: 200, Status: "200 OK", ProtoMajor: 2, Header: header, Trailer: http.Header{}, Body: io.NopCloser(&wholeReader{data: body})}
	if proto == 1 {
		resp.Trailer.Set("Grpc-Status", "0")
	}
	tr := &cannedTransport{resp: resp}
	client := NewClient[[]byte, []byte](tr, stackURL, copts...)
	in := []byte{1}
	_, err := client.CallUnary(context.Background(), NewRequest(&in))
	check(err == nil, "the call succeeds")
	acceptHeader := []string{connectUnaryHeaderAcceptCompression, grpcHeaderAcceptCompression, grpcHeaderAcceptCompression}[proto]
	got := tr.reqHeader.Get(acceptHeader)
	check(got == strings.Join(want, ","), "the client advertises its algorithms most-preferred first: latest registration first, the built-in gzip last")
}

// HarnessC08StreamEnvelopes: every envelope of a streaming response obeys the
// minimum size - data messages and the final protocol envelope alike (the
// Connect end-of-stream message, the gRPC-Web trailer block): with
// compression negotiated, an envelope is flagged compressed exactly when its
// uncompressed payload reaches compress-min-bytes, and a flagged payload
// really decompresses.
//
//verif:harness property=C08 stubs=json,wire shard=proto:3
func HarnessC08StreamEnvelopes() {
	proto := nondetChoice("proto", 3)
	minBytes := []int{0, 2, 1024}[nondetChoice("minBytes", 3)]
	msg := nondetBytes("msg", bound("msgLen", 2, 3))
	fail := nondetBool("fail")
	handler := NewServerStreamHandler("/pkg.Svc/Method", func(ctx context.Context, req *Request[[]byte], s *ServerStream[[]byte]) error {
		out := append([]byte{}, msg...)
		if err := s.Send(&out); err != nil {
			return err
		}
		if fail {
			return NewError(CodeAborted, errors.New("no"))
		}
		return nil
	}, WithCodec(&stackCodec{}), WithCompressMinBytes(minBytes), c08XorHandler("gzip"))
	copts := []ClientOption{WithCodec(&stackCodec{}), WithCompressMinBytes(1 << 20), c08XorClient("gzip")}
	switch proto {
	case 1:
		copts = append(copts, WithGRPC())
	case 2:
		copts = append(copts, WithGRPCWeb())
	}
	tr := &stackTransport{handler: handler}
	client := NewClient[[]byte, []byte](tr, stackURL, copts...)
	in := []byte{1}
	stream, err := client.CallServerStream(context.Background(), NewRequest(&in))
	check(err == nil, "starting the stream succeeds")
	if err != nil {
		return
	}
	n := 0
	for stream.Receive() {
		check(bytesEq(*stream.Msg(), msg), "the payload survives")
		n++
		if n > 2 {
			break
		}
	}
	check(n == 1, "one message arrives")
	check((stream.Err() != nil) == fail, "the outcome is the handler's")
	_ = stream.Close()
	_, rh, _, rbody := tr.rec.finish()
	encHeader := []string{connectStreamingHeaderCompression, grpcHeaderCompression, grpcHeaderCompression}[proto]
	check(rh.Get(encHeader) == "gzip", "the handler names the negotiated algorithm")
	frames, ok := refParseFrames(rbody)
	check(ok && len(frames) >= 1, "the response body is a whole number of frames")
	for _, f := range frames {
		plainLen := len(f.payload)
		if f.flags&flagEnvelopeCompressed != 0 {
			check(len(f.payload) >= 1 && f.payload[0] == 0xC5, "an envelope flagged compressed really is compressed")
			plainLen = len(f.payload) - 1
			check(plainLen >= minBytes, "an envelope below compress-min-bytes goes uncompressed (data message or final protocol envelope)")
		} else {
			check(plainLen < minBytes || plainLen == 0, "an envelope that reaches compress-min-bytes is compressed")
		}
	}
}

// HarnessC08EncodingNameCase: algorithm names are matched exactly: a request
// whose encoding header differs from a registered name only in the case of
// one letter (symbolic position) names an algorithm the handler lacks - it is
// rejected as unimplemented without running user code, like any unknown name,
// in every protocol, unary and streaming.
//
//verif:harness property=C08 stubs=json,wire shard=proto:3
func HarnessC08EncodingNameCase() {
	proto := nondetChoice("proto", 3)
	streaming := nondetBool("streaming")
	userCalls := 0
	opts := []HandlerOption{WithCodec(&stackCodec{}), WithCompressMinBytes(1 << 20), c08XorHandler("gzip")}
	var handler *Handler
	if streaming {
		handler = NewClientStreamHandler("/pkg.Svc/Method", func(ctx context.Context, s *ClientStream[[]byte]) (*Response[[]byte], error) {
			userCalls++
			for s.Receive() {
			}
			if err := s.Err(); err != nil {
				return nil, err
			}
			out := []byte{1}
			return NewResponse(&out), nil
		}, opts...)
	} else {
		handler = NewUnaryHandler("/pkg.Svc/Method", func(ctx context.Context, req *Request[[]byte]) (*Response[[]byte], error) {
			userCalls++
			out := []byte{1}
			return NewResponse(&out), nil
		}, opts...)
	}
	name := []byte("gzip")
	i := nondetInt("flipAt")
	assume(i >= 0 && i < len(name))
	name[i] = name[i] - 'a' + 'A'
	unaryConnect := proto == 0 && !streaming
	ct := []string{"application/connect+proto", "application/grpc+proto", "application/grpc-web+proto"}[proto]
	encHeader := []string{connectStreamingHeaderCompression, grpcHeaderCompression, grpcHeaderCompression}[proto]
	body := refFrame(1, []byte{0xC5, 0x41 ^ 0x5A})
	if unaryConnect {
		ct, encHeader, body = "application/proto", connectUnaryHeaderCompression, []byte{0xC5, 0x41 ^ 0x5A}
	}
	rec := newRecWriter()
	req := &http.Request{Method: "POST", ProtoMajor: 2, Header: http.Header{"Content-Type": {ct}, encHeader: {string(name)}}, Body: &faultReader{data: body, cut: len(body)}}
	handler.ServeHTTP(rec, req)
	status, rh, rt, rbody := rec.finish()
	code, wellFormed := c07ResponseCode(proto, unaryConnect, status, rh, rt, rbody)
	check(wellFormed, "the response is well-formed")
	check(code == int(CodeUnimplemented), "an encoding name that differs from a registered one in letter case is rejected as unimplemented")
	check(userCalls == 0, "user code does not run when the request compression is unsupported")
}

// HarnessC08ClientRequests: the client side of "messages below the configured
// minimum size go uncompressed": the requests a real client writes (unary and
// client stream, 3 protocols, send-compression on/off, symbolic
// compress-min-bytes and payload; the program of C05's client-wire harness)
// are compressed exactly from the minimum size on.
//
//verif:harness property=C08 stubs=json,wire shard=proto:3
func HarnessC08ClientRequests() {
	c05ClientWire()
}
