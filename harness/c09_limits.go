package connect

import (
	"bytes"
	"context"
	"encoding/binary"
	"io"
	"net/http"
	"runtime"
)

// C09 - read limits are enforced exactly, before a message reaches user code.

// spyCodec records what reached "user code".
type spyCodec struct {
	byteCodec
	calls  int
	maxLen int
}

func (c *spyCodec) Unmarshal(data []byte, m any) error {
	c.calls++
	if len(data) > c.maxLen {
		c.maxLen = len(data)
	}
	return c.byteCodec.Unmarshal(data, m)
}

// verifMaxGrow is the largest n passed to (*bytes.Buffer).Grow (symbolic side).
var verifMaxGrow int

//verif:stub (*bytes.Buffer).Grow@grow
func stubBufferGrow(b *bytes.Buffer, n int) {
	if n < 0 {
		panic("bytes.Buffer.Grow: negative count")
	}
	if n > verifMaxGrow {
		verifMaxGrow = n
	}
	if n <= 64 {
		// grow for real (same observable effect as Grow: capacity only)
		l := b.Len()
		b.Write(make([]byte, n))
		b.Truncate(l)
	}
}

func allocatedBytes() uint64 {
	var ms runtime.MemStats
	runtime.ReadMemStats(&ms)
	return ms.TotalAlloc
}

// HarnessC09EnvelopeLimit: a frame whose declared size exceeds the limit is
// rejected before anything is buffered for it or handed to the codec; a frame
// within the limit is accepted with exactly its declared bytes; a frame with
// fewer bytes present than declared is an error, never a short message.
//
//verif:harness property=C09 stubs=grow
func HarnessC09EnvelopeLimit() {
	maxM := bound("maxLimit", 3, 5)
	M := nondetInt("M")
	assume(M >= 1 && M <= maxM)
	sz := nondetBytesN("size", 4)
	size := int(binary.BigEndian.Uint32(sz))
	// declared sizes: small (around the limit) or large (up to 256 MiB); the
	// gap is excluded because io.Discard's 8 KiB scratch buffer would have to
	// be case-split over every length in between.
	assume(size <= maxM+2 || (size >= 8192 && size <= 1<<28))
	present := nondetBytes("payload", maxM+2)
	var stream []byte
	second := nondetBool("second")
	if second { // the frame under test follows an accepted one
		stream = append(stream, 0, 0, 0, 0, 1, 0x41)
	}
	// the flag byte is arbitrary: the limit applies to every envelope,
	// whatever its flags say it is
	flags := nondetByte("flags")
	stream = append(stream, flags)
	stream = append(stream, sz...)
	stream = append(stream, present...)
	codec := &spyCodec{}
	er := &envelopeReader{reader: &wholeReader{data: stream}, codec: codec, bufferPool: newBufferPool(), readMaxBytes: M}
	var m []byte
	if second {
		err := er.Unmarshal(&m)
		check(err == nil && len(m) == 1, "a message within the limit is accepted at the first position")
		codec.calls, codec.maxLen = 0, 0
	}
	verifMaxGrow = 0
	before := uint64(0)
	if !verifSymbolic() {
		before = allocatedBytes()
	}
	m = nil
	err := er.Unmarshal(&m)
	switch {
	case size > M:
		check(err != nil, "a message declared larger than the limit is rejected")
		check(err == nil || err.Code() == CodeInvalidArgument, "an oversize message is rejected as invalid_argument")
		check(codec.calls == 0, "an oversize message never reaches the codec")
		// "substantially more than the limit": more than the limit plus the
		// pool's 512-byte seed buffer.
		if verifSymbolic() {
			check(verifMaxGrow <= M+512, "nothing substantial is buffered for a message declared larger than the limit")
		} else {
			check(allocatedBytes()-before < 7000, "nothing substantial is buffered for a message declared larger than the limit")
		}
	case len(present) < size:
		check(err != nil, "fewer bytes than declared is an error, never a short message")
		check(codec.calls == 0, "a short message never reaches the codec")
	case flags != 0:
		// a compressed or protocol-specific envelope within the limit: not a
		// plain message (no compression pool here), judged by C04/C07
		check(codec.calls == 0 || flags == 1, "only data envelopes reach the codec")
	default:
		check(err == nil, "a message within the limit is accepted")
		if err == nil {
			check(bytesEq(m, present[:size]), "an accepted message is exactly its declared bytes")
			check(codec.maxLen <= M, "no message larger than the limit reaches the codec")
		}
	}
}

// HarnessC09DecompressLimit: the limit applies to the decompressed size.
//
//verif:harness property=C09
func HarnessC09DecompressLimit() {
	maxM := bound("maxLimit", 3, 4)
	M := nondetInt("M")
	assume(M >= 1 && M <= maxM)
	plain := nondetBytes("plain", maxM+2)
	// compress with the real pool
	pool := newXorPool()
	src := bytes.NewBuffer(append([]byte{}, plain...))
	wire := &bytes.Buffer{}
	if err := pool.Compress(wire, src); err != nil {
		check(false, "compressing succeeds")
		return
	}
	dst := &bytes.Buffer{}
	err := pool.Decompress(dst, wire, int64(M))
	if len(plain) > M {
		check(err != nil, "a message whose decompressed size exceeds the limit is rejected")
		check(err == nil || err.Code() == CodeInvalidArgument, "a decompression bomb is rejected as invalid_argument")
		check(dst.Len() <= M+1, "at most limit+1 decompressed bytes are ever buffered")
	} else {
		check(err == nil, "a message whose decompressed size is within the limit is accepted")
		check(err != nil || bytesEq(dst.Bytes(), plain), "decompression is lossless")
	}
}

// HarnessC09HugeLimit: limits close to the integer maximum never overflow
// (limit+1) and never reject a small message.
//
//verif:harness property=C09
func HarnessC09HugeLimit() {
	M := nondetInt64("M")
	assume(M >= 1<<40)
	plain := nondetBytes("plain", 2)
	pool := newXorPool()
	src := bytes.NewBuffer(append([]byte{}, plain...))
	wire := &bytes.Buffer{}
	if err := pool.Compress(wire, src); err != nil {
		check(false, "compressing succeeds")
		return
	}
	dst := &bytes.Buffer{}
	err := pool.Decompress(dst, wire, M)
	check(err == nil && bytesEq(dst.Bytes(), plain), "a small message is accepted under any huge limit")
	u := &connectUnaryUnmarshaler{reader: &wholeReader{data: plain}, codec: &byteCodec{}, bufferPool: newBufferPool(), readMaxBytes: int(M)}
	var m []byte
	uerr := u.Unmarshal(&m)
	check(uerr == nil && bytesEq(m, plain), "a small unary body is accepted under any huge limit")
}

// HarnessC09UnaryLimit: unary bodies, on the wire and after decompression.
//
//verif:harness property=C09
func HarnessC09UnaryLimit() {
	maxM := bound("maxLimit", 3, 4)
	M := nondetInt("M")
	assume(M >= 1 && M <= maxM)
	plain := nondetBytes("plain", maxM+2)
	compressed := nondetBool("compressed")
	var pool *compressionPool
	wire := plain
	if compressed {
		pool = newXorPool()
		w := &bytes.Buffer{}
		if err := pool.Compress(w, bytes.NewBuffer(append([]byte{}, plain...))); err != nil {
			check(false, "compressing succeeds")
			return
		}
		wire = w.Bytes()
	}
	codec := &spyCodec{}
	u := &connectUnaryUnmarshaler{reader: &wholeReader{data: wire}, codec: codec, bufferPool: newBufferPool(), readMaxBytes: M, compressionPool: pool}
	var m []byte
	err := u.Unmarshal(&m)
	if len(wire) > M || len(plain) > M {
		check(err != nil, "a unary message over the limit (on the wire or decompressed) is rejected")
		check(err == nil || err.Code() == CodeInvalidArgument, "an oversize unary message is rejected as invalid_argument")
		check(codec.calls == 0, "an oversize unary message never reaches the codec")
	} else {
		check(err == nil, "a unary message within the limit is accepted")
		check(err != nil || bytesEq(m, plain), "an accepted unary message is intact")
	}
}

// HarnessC09UnaryDeclaredLength: a Connect unary message whose HTTP
// Content-Length (true or not) is far above the read limit: on the handler
// side and on the client side the receiver must not size buffers from the
// declared length.
//
//verif:harness property=C09 stubs=grow,json,wire
func HarnessC09UnaryDeclaredLength() {
	const M = 4
	declared := nondetInt64("contentLength")
	assume(declared >= -1 && declared <= 1<<26)
	// small, or clearly oversize (so that "substantially more than the limit"
	// means the same thing on the symbolic and on the native side)
	assume(declared <= 1024 || declared >= 1<<24)
	body := nondetBytes("body", bound("unaryBodyLen", 6, 7))
	clientSide := nondetBool("clientSide")
	userCalls := 0
	handler := NewUnaryHandler("/pkg.Svc/Method", func(ctx context.Context, req *Request[[]byte]) (*Response[[]byte], error) {
		userCalls++
		check(len(*req.Msg) <= M, "user code never receives a message above the read limit")
		out := []byte{1}
		return NewResponse(&out), nil
	}, stackHandlerOptions(WithReadMaxBytes(M))...)
	verifMaxGrow = 0
	before := uint64(0)
	if !verifSymbolic() {
		before = allocatedBytes()
	}
	if clientSide {
		header := http.Header{"Content-Type": {"application/proto"}}
		tr := &cannedTransport{resp: &http.Response{StatusCode: 200, Status: "200 OK", ProtoMajor: 2, Header: header, ContentLength: declared, Body: io.NopCloser(&wholeReader{data: body})}}
		client := NewClient[[]byte, []byte](tr, stackURL, stackClientOptions(0, WithReadMaxBytes(M))...)
		in := []byte{1}
		res, err := client.CallUnary(context.Background(), NewRequest(&in))
		if len(body) > M {
			check(err != nil, "a unary response above the read limit is rejected")
		} else {
			check(err == nil && bytesEq(*res.Msg, body), "a unary response within the read limit is accepted intact")
		}
	} else {
		rec := newRecWriter()
		req := &http.Request{Method: "POST", ProtoMajor: 2, ContentLength: declared, Header: http.Header{"Content-Type": {"application/proto"}}, Body: io.NopCloser(&wholeReader{data: body})}
		handler.ServeHTTP(rec, req)
		if len(body) > M {
			check(userCalls == 0, "a unary request above the read limit never reaches user code")
		} else {
			check(userCalls == 1, "a unary request within the read limit reaches user code")
		}
	}
	if verifSymbolic() {
		check(verifMaxGrow <= 4096, "buffers are not sized from a declared length above the read limit")
	} else {
		check(allocatedBytes()-before < 1<<20, "buffers are not sized from a declared length above the read limit")
	}
}

// HarnessC09ClientStreamLimit: the client's read limit through the whole
// stack, for streamed responses of all three protocols, compressed or not: a
// response message above the limit - on the wire or once decompressed - is
// never delivered to the application and fails the call; one within it is
// delivered intact.
//
//verif:harness property=C09 stubs=json,wire shard=proto:3
func HarnessC09ClientStreamLimit() {
	const M = 48 // above the size of the protocols' own final envelopes
	proto := nondetChoice("proto", 3)
	compressed := nondetBool("compressed")
	n := M - 2 + nondetChoice("size", 5) // 46..50
	fill := nondetByte("fill")
	msg := make([]byte, n)
	for i := range msg {
		msg[i] = fill
	}
	minBytes := 1 << 20
	if compressed {
		minBytes = 0
	}
	handler := NewServerStreamHandler("/pkg.Svc/Method", func(ctx context.Context, req *Request[[]byte], s *ServerStream[[]byte]) error {
		out := append([]byte{}, msg...)
		return s.Send(&out)
	}, WithCodec(&stackCodec{}), WithCompressMinBytes(minBytes), c08XorHandler("gzip"))
	client := NewClient[[]byte, []byte](&stackTransport{handler: handler}, stackURL, stackClientOptions(proto, c08XorClient("gzip"), WithReadMaxBytes(M))...)
	in := []byte{1}
	stream, err := client.CallServerStream(context.Background(), NewRequest(&in))
	check(err == nil, "starting the stream succeeds")
	if err != nil {
		return
	}
	delivered := 0
	for stream.Receive() {
		delivered++
		check(len(*stream.Msg()) <= M, "the application never receives a message above the client's read limit")
		check(bytesEq(*stream.Msg(), msg), "a delivered message is intact")
		if delivered > 2 {
			break
		}
	}
	serr := stream.Err()
	_ = stream.Close()
	wire := n
	if compressed {
		wire = n + 1
	}
	if n > M || wire > M {
		check(delivered == 0 && serr != nil, "a response message above the read limit (on the wire or decompressed) fails the call")
		if serr != nil {
			check(CodeOf(serr) == CodeInvalidArgument || CodeOf(serr) == CodeResourceExhausted, "an oversize message is reported as invalid_argument or resource_exhausted")
		}
	} else {
		check(delivered == 1 && serr == nil, "a response message within the read limit is delivered")
	}
}

// HarnessC09HandlerStreamLimit: the handler's read limit is per message, at
// every position of a request stream: two enveloped messages of sizes N-1..N+1
// each, sent with or without an HTTP Content-Length (a pre-built body has
// one; its total is well above N), to a client-stream handler of each
// protocol.  Messages within the limit are all delivered; one above it fails
// the call and is never delivered.
//
//verif:harness property=C09 stubs=json,wire shard=proto:3
func HarnessC09HandlerStreamLimit() {
	const N = 4
	proto := nondetChoice("proto", 3)
	var sizes [2]int
	var body []byte
	for i := range sizes {
		sizes[i] = N - 1 + nondetChoice("size", 3)
		body = append(body, refFrame(0, make([]byte, sizes[i]))...)
	}
	delivered := 0
	handler := NewClientStreamHandler("/pkg.Svc/Method", func(ctx context.Context, s *ClientStream[[]byte]) (*Response[[]byte], error) {
		for s.Receive() {
			check(len(*s.Msg()) <= N, "user code never receives a message above the read limit")
			delivered++
		}
		if err := s.Err(); err != nil {
			return nil, err
		}
		out := []byte{1}
		return NewResponse(&out), nil
	}, stackHandlerOptions(WithReadMaxBytes(N))...)
	ct := []string{"application/connect+proto", "application/grpc+proto", "application/grpc-web+proto"}[proto]
	declared := int64(-1)
	if nondetBool("contentLength") {
		declared = int64(len(body))
	}
	rec := newRecWriter()
	req := &http.Request{Method: "POST", ProtoMajor: 2, ContentLength: declared, Header: http.Header{"Content-Type": {ct}}, Body: io.NopCloser(&wholeReader{data: body})}
	handler.ServeHTTP(rec, req)
	status, rh, rt, rbody := rec.finish()
	code, wellFormed := c07ResponseCode(proto, false, status, rh, rt, rbody)
	check(wellFormed, "the response is well-formed")
	if sizes[0] <= N && sizes[1] <= N {
		check(code == 0 && delivered == 2, "every message of at most N bytes is accepted, at every position in the stream and whatever the total length of the body")
	} else {
		check(code != 0, "a request stream with a message above the limit fails")
		if sizes[0] > N {
			check(delivered == 0, "nothing behind an oversize message is delivered")
		}
	}
}

// HarnessC09SpecialEnvelopeBomb: the protocols' own final envelopes are
// subject to the limit after decompression too: a Connect end-of-stream
// envelope (flags 0x03) or a gRPC-Web trailer envelope (flags 0x81) that is
// small on the wire and inflates past the client's read limit fails the call
// with the documented error; it is not inflated and accepted.
//
//verif:harness property=C09 stubs=json,wire,grow
func HarnessC09SpecialEnvelopeBomb() {
	const M = 48
	web := nondetBool("web")
	fill := nondetByte("fill")
	bomb := []byte{0xC6, 100, fill} // run-length form: inflates to 100 bytes
	header := http.Header{"Content-Type": {"application/connect+proto"}, "Connect-Content-Encoding": {"gzip"}}
	body := refFrame(0, []byte{7})
	proto := 0
	if web {
		proto = 2
		header = http.Header{"Content-Type": {"application/grpc-web+proto"}, "Grpc-Encoding": {"gzip"}}
		body = append(body, refFrame(0x81, bomb)...)
	} else {
		body = append(body, refFrame(0x03, bomb)...)
	}
	tr := &cannedTransport{resp: &http.Response{StatusCode: 200, Status: "200 OK", ProtoMajor: 2, Header: header, Trailer: http.Header{}, Body: io.NopCloser(&wholeReader{data: body})}}
	client := NewClient[[]byte, []byte](tr, stackURL, stackClientOptions(proto, c08XorClient("gzip"), WithReadMaxBytes(M))...)
	in := []byte{1}
	verifMaxGrow = 0
	stream, err := client.CallServerStream(context.Background(), NewRequest(&in))
	check(err == nil, "starting the stream succeeds")
	if err != nil {
		return
	}
	n := 0
	for stream.Receive() {
		n++
		if n > 2 {
			break
		}
	}
	serr := stream.Err()
	_ = stream.Close()
	check(serr != nil, "a final envelope that inflates past the read limit fails the call")
	if serr != nil {
		check(CodeOf(serr) == CodeInvalidArgument || CodeOf(serr) == CodeResourceExhausted, "the oversize final envelope is reported as invalid_argument or resource_exhausted")
	}
}
