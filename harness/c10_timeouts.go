package connect

import (
	"context"
	"errors"
	"net/http"
	"time"
)

// C10 - deadlines propagate to the handler and are never extended.
// Integers are mathematical Ints with explicit 64-bit wrap (ints=lia): the
// kernels multiply/divide by 10^3..3.6*10^12, which stalls bit-blasting but
// is linear arithmetic.

func refUnit(c byte) (time.Duration, bool) {
	switch c {
	case 'n':
		return time.Nanosecond, true
	case 'u':
		return time.Microsecond, true
	case 'm':
		return time.Millisecond, true
	case 'S':
		return time.Second, true
	case 'M':
		return time.Minute, true
	case 'H':
		return time.Hour, true
	}
	return 0, false
}

func allDigits(s string) bool {
	for i := 0; i < len(s); i++ {
		if s[i] < '0' || s[i] > '9' {
			return false
		}
	}
	return true
}

// refDecimal: value of a digit string (caller guarantees <= 18 digits).
func refDecimal(s string) int64 {
	var v int64
	for i := 0; i < len(s); i++ {
		v = v*10 + int64(s[i]-'0')
	}
	return v
}

// HarnessC10GRPCEncode: for every 0 < d < 2^63 ns the Grpc-Timeout value is
// grammatical (1..8 digits + unit), never longer than d and shorter by less
// than 0.01%; encoding never fails.
//
//verif:harness property=C10 ints=lia
func HarnessC10GRPCEncode() {
	d := nondetInt64("d")
	assume(d > 0)
	s, err := grpcEncodeTimeout(time.Duration(d))
	check(err == nil, "every positive duration is expressible as a gRPC timeout")
	if err != nil {
		return
	}
	check(len(s) >= 2 && len(s) <= 9, "Grpc-Timeout has 1..8 digits plus a unit")
	if len(s) < 2 || len(s) > 9 {
		return
	}
	unit, ok := refUnit(s[len(s)-1])
	check(ok, "Grpc-Timeout unit is one of HMSmun")
	digits := s[:len(s)-1]
	check(allDigits(digits), "Grpc-Timeout number is decimal digits")
	if !ok || !allDigits(digits) {
		return
	}
	v := refDecimal(digits)
	// v <= 99999999 and unit <= 3.6e12: v*unit < 3.6e20 may exceed int64; compare by division.
	check(v <= d/int64(unit), "encoded timeout is never longer than the time remaining")
	sent := v * int64(unit)
	if v <= d/int64(unit) {
		lost := d - sent
		check(lost >= 0 && lost < int64(unit), "encoded timeout loses less than one unit")
		// under 0.01%: lost*10^4 < d  <=>  lost < d/10^4 (+ remainder); use the exact form without overflow:
		check(lost <= d/10000, "encoded timeout is shorter by at most 0.01%")
	}
}

// HarnessC10GRPCParse: every header string up to the bound is either parsed
// to exactly n*unit (grammatical), reported as no-timeout (hours beyond the
// runtime's range, empty header), or rejected (the malformed classes named
// by the property).
//
//verif:harness property=C10 ints=lia
func HarnessC10GRPCParse() {
	s := nondetString("hdr", bound("len", 9, 11))
	d, err := grpcParseTimeout(s)
	if s == "" {
		check(errors.Is(err, errNoTimeout), "empty Grpc-Timeout means no timeout")
		return
	}
	unit, unitOK := refUnit(s[len(s)-1])
	num := s[:len(s)-1]
	switch {
	case !unitOK:
		check(err != nil && !errors.Is(err, errNoTimeout), "missing or unknown unit is rejected")
	case num == "":
		check(err != nil && !errors.Is(err, errNoTimeout), "empty number is rejected")
	case allDigits(num) && len(num) <= 8:
		n := refDecimal(num)
		if unit == time.Hour && n > int64(1<<63-1)/int64(time.Hour) {
			check(errors.Is(err, errNoTimeout), "hours beyond the representable range mean no timeout")
		} else {
			check(err == nil, "grammatical timeout is accepted")
			check(err != nil || int64(d) == n*int64(unit), "grammatical timeout is honoured exactly")
			check(err != nil || d >= 0, "parsed timeout never wraps negative")
		}
	case allDigits(num) && len(num) <= 18:
		// more than 8 digits: beyond the grammar unless the value still fits (leading zeros): only
		// values above 99999999 must be rejected.
		if refDecimal(num) > 99999999 {
			check(err != nil && !errors.Is(err, errNoTimeout), "magnitude beyond 8 digits is rejected")
		}
	case !allDigits(num):
		// a non-digit other than a leading sign must be rejected
		rest := num
		if rest[0] == '+' || rest[0] == '-' {
			rest = rest[1:]
		}
		if rest == "" || !allDigits(rest) {
			check(err != nil && !errors.Is(err, errNoTimeout), "non-decimal number is rejected")
		} else if err == nil {
			check(d >= 0, "parsed timeout never wraps negative")
		}
	}
}

// HarnessC10GRPCRoundTrip: parse(encode(d)) through the real functions.
//
//verif:harness property=C10 ints=lia
func HarnessC10GRPCRoundTrip() {
	d := nondetInt64("d")
	assume(d > 0)
	s, err := grpcEncodeTimeout(time.Duration(d))
	if err != nil {
		check(false, "every positive duration is expressible as a gRPC timeout")
		return
	}
	back, perr := grpcParseTimeout(s)
	check(perr == nil, "the handler accepts what the client encoded")
	if perr == nil {
		check(int64(back) <= d, "round-tripped timeout never exceeds the original")
		// The 0.01% bound of the composition follows from HarnessC10GRPCEncode
		// (value of the digits) and HarnessC10GRPCParse (parse == digits*unit);
		// asserted here directly it is one query none of the three solvers
		// finishes for the 6-digit seconds case, so it is decided only for
		// durations below 10^13 ns (units n, u, m) in this harness.
		if d < 10000000000000 {
			check(d-int64(back) <= d/10000, "round-tripped timeout is shorter by at most 0.01%")
		}
	}
}

// verifCtx is the model context returned by the context.WithTimeout stub.
type verifCtx struct {
	context.Context
	timeout time.Duration
}

//verif:stub context.WithTimeout@ctx
func stubContextWithTimeout(parent context.Context, d time.Duration) (context.Context, context.CancelFunc) {
	return &verifCtx{Context: parent, timeout: d}, func() {}
}

// As with the real context.WithTimeout, a timeout that is not positive gives
// a context that has already expired.
func (c *verifCtx) Err() error {
	if c.timeout <= 0 {
		return context.DeadlineExceeded
	}
	return c.Context.Err()
}

func (c *verifCtx) Done() <-chan struct{} {
	if c.timeout <= 0 {
		return closedChan()
	}
	return c.Context.Done()
}

// ctxTimeoutOf reads the timeout a handler-side SetTimeout installed.
func ctxTimeoutOf(ctx context.Context) (time.Duration, bool) {
	if vc, ok := ctx.(*verifCtx); ok {
		return vc.timeout, true
	}
	dl, ok := ctx.Deadline()
	if !ok {
		return 0, false
	}
	return time.Until(dl), true
}

func durMatches(got, want time.Duration) bool {
	if verifSymbolic() {
		return got == want
	}
	if want > 1<<61 {
		return got > 1<<60
	}
	diff := got - want
	if diff < 0 {
		diff = -diff
	}
	return diff < 5*time.Second
}

// HarnessC10ConnectSetTimeout: Connect-Timeout-Ms values up to the bound:
// [0-9]{1,10} is honoured exactly as milliseconds, malformed is rejected with
// invalid_argument, empty means no deadline.
//
//verif:harness property=C10 ints=lia stubs=ctx
func HarnessC10ConnectSetTimeout() {
	s := nondetString("hdr", bound("len", 11, 12))
	h := &connectHandler{}
	req := &http.Request{Header: http.Header{}}
	if s != "" {
		req.Header[connectHeaderTimeout] = []string{s}
	}
	ctx, _, err := h.SetTimeout(req)
	switch {
	case s == "":
		check(err == nil, "no Connect-Timeout-Ms header is not an error")
		if err == nil {
			_, has := ctxTimeoutOf(ctx)
			check(!has, "without a timeout header the handler context has no deadline")
		}
	case allDigits(s) && len(s) <= 10:
		check(err == nil, "grammatical Connect-Timeout-Ms is accepted")
		if err == nil {
			got, has := ctxTimeoutOf(ctx)
			check(has, "grammatical Connect-Timeout-Ms installs a deadline")
			want := time.Duration(refDecimal(s)) * time.Millisecond
			check(want >= 0, "10 digits of milliseconds never overflow a Duration")
			check(!has || durMatches(got, want), "Connect-Timeout-Ms is honoured exactly")
		}
	case len(s) > 10 && allDigits(s):
		if refDecimal(s) > 9999999999 {
			check(err != nil && CodeOf(err) == CodeInvalidArgument, "more than 10 digits of milliseconds is rejected as invalid_argument")
		}
	case !allDigits(s):
		rest := s
		if rest[0] == '+' || rest[0] == '-' {
			rest = rest[1:]
		}
		if rest == "" || !allDigits(rest) {
			check(err != nil && CodeOf(err) == CodeInvalidArgument, "non-decimal Connect-Timeout-Ms is rejected as invalid_argument")
		} else if s[0] == '-' && !allZeros(rest) {
			// a negative value (a redundant sign on a non-negative one is not classified)
			check(err != nil && CodeOf(err) == CodeInvalidArgument, "a negative Connect-Timeout-Ms is rejected as invalid_argument, never installed as a deadline in the past")
		}
	}
}

// HarnessC10GRPCSetTimeout: the gRPC handler's SetTimeout installs exactly
// the parsed value and maps parse failures to invalid_argument.
//
//verif:harness property=C10 ints=lia stubs=ctx
func HarnessC10GRPCSetTimeout() {
	s := nondetString("hdr", bound("len", 5, 10))
	h := &grpcHandler{}
	req := &http.Request{Header: http.Header{}}
	if s != "" {
		req.Header[grpcHeaderTimeout] = []string{s}
	}
	want, perr := grpcParseTimeout(s)
	ctx, _, err := h.SetTimeout(req)
	switch {
	case perr == nil:
		check(err == nil, "a parsable Grpc-Timeout is accepted by the handler")
		if err == nil {
			got, has := ctxTimeoutOf(ctx)
			check(has && durMatches(got, want), "the handler context gets exactly the parsed timeout")
		}
	case errors.Is(perr, errNoTimeout):
		check(err == nil, "no timeout is not an error")
		if err == nil {
			_, has := ctxTimeoutOf(ctx)
			check(!has, "without a timeout the handler context has no deadline")
		}
	default:
		check(err != nil && CodeOf(err) == CodeInvalidArgument, "malformed Grpc-Timeout is rejected as invalid_argument")
	}
}

func c10ClientCtx(d int64) (context.Context, func()) {
	if verifSymbolic() {
		verifRemaining = time.Duration(d)
		return &deadlineCtx{has: true}, func() {}
	}
	return context.WithDeadline(context.Background(), time.Now().Add(time.Duration(d)))
}

// nativeSlack: in native replays the real clock advances between creating
// the context and encoding the header.
func nativeSlack() int64 {
	if verifSymbolic() {
		return 0
	}
	return int64(200 * time.Millisecond)
}

// HarnessC10ConnectClientHeader: the Connect client's timeout header for a
// remaining time d: absent iff d < 1ms or more than 10 digits of
// milliseconds, otherwise at most d and shorter by less than 1ms.
//
//verif:harness property=C10 ints=lia stubs=clock witness=statusonly
func HarnessC10ConnectClientHeader() {
	d := nondetInt64("d")
	assume(d > 0)
	ctx, cancel := c10ClientCtx(d)
	defer cancel()
	c := &connectClient{protocolClientParams{
		Codec: &byteCodec{}, URL: "http://h/p.S/M", BufferPool: newBufferPool(),
		CompressionPools: newReadOnlyCompressionPools(map[string]*compressionPool{}, nil),
	}}
	header := http.Header{}
	c.NewConn(ctx, Spec{StreamType: StreamTypeUnary}, header)
	vals := header[connectHeaderTimeout]
	slack := nativeSlack()
	if len(vals) == 0 {
		check(d < int64(time.Millisecond)+slack || d/int64(time.Millisecond) > 9999999999, "Connect timeout header is omitted only below 1ms or beyond 10 digits")
		return
	}
	check(len(vals) == 1, "exactly one Connect-Timeout-Ms value")
	s := vals[0]
	check(len(s) >= 1 && len(s) <= 10 && allDigits(s), "Connect-Timeout-Ms is 1..10 decimal digits")
	if len(s) >= 1 && len(s) <= 10 && allDigits(s) {
		ms := refDecimal(s)
		check(ms*int64(time.Millisecond) <= d, "Connect timeout sent is never longer than the time remaining")
		check(d-ms*int64(time.Millisecond) < int64(time.Millisecond)+slack, "Connect timeout sent is shorter by less than one millisecond")
	}
}

// HarnessC10GRPCClientHeader: same for the gRPC client (Grpc-Timeout).
//
//verif:harness property=C10 ints=lia stubs=clock witness=statusonly
func HarnessC10GRPCClientHeader() {
	d := nondetInt64("d")
	assume(d > 0)
	ctx, cancel := c10ClientCtx(d)
	defer cancel()
	c := &grpcClient{protocolClientParams: protocolClientParams{
		Codec: &byteCodec{}, URL: "http://h/p.S/M", BufferPool: newBufferPool(),
		CompressionPools: newReadOnlyCompressionPools(map[string]*compressionPool{}, nil),
	}}
	header := http.Header{}
	c.NewConn(ctx, Spec{StreamType: StreamTypeUnary}, header)
	vals := header[grpcHeaderTimeout]
	check(len(vals) == 1, "a gRPC client with a deadline always sends Grpc-Timeout")
	if len(vals) != 1 {
		return
	}
	s := vals[0]
	check(len(s) >= 2 && len(s) <= 9, "Grpc-Timeout has 1..8 digits plus a unit")
	if len(s) < 2 || len(s) > 9 {
		return
	}
	unit, ok := refUnit(s[len(s)-1])
	check(ok && allDigits(s[:len(s)-1]), "Grpc-Timeout is digits plus one of HMSmun")
	if ok && allDigits(s[:len(s)-1]) {
		v := refDecimal(s[:len(s)-1])
		check(v <= d/int64(unit), "Grpc-Timeout sent is never longer than the time remaining")
	}
}

// HarnessC10NoDeadline: without a client deadline no timeout header is sent.
//
//verif:harness property=C10 ints=lia stubs=clock witness=statusonly
func HarnessC10NoDeadline() {
	web := nondetBool("web")
	params := protocolClientParams{
		Codec: &byteCodec{}, URL: "http://h/p.S/M", BufferPool: newBufferPool(),
		CompressionPools: newReadOnlyCompressionPools(map[string]*compressionPool{}, nil),
	}
	header := http.Header{}
	(&connectClient{params}).NewConn(context.Background(), Spec{StreamType: StreamTypeUnary}, header)
	check(len(header[connectHeaderTimeout]) == 0, "no deadline, no Connect-Timeout-Ms")
	header2 := http.Header{}
	(&grpcClient{protocolClientParams: params, web: web}).NewConn(context.Background(), Spec{StreamType: StreamTypeUnary}, header2)
	check(len(header2[grpcHeaderTimeout]) == 0, "no deadline, no Grpc-Timeout")
}

// HarnessC10ServerDeadline: the peer's timeout is honoured - and a malformed
// one rejected - also when the request context the server hands to the
// handler already has a (later) deadline of its own, e.g. from middleware: the
// handler's context gets the peer's timeout, user code does not run for a
// malformed header.
//
//verif:harness property=C10 stubs=json,wire,ctx,clock shard=proto:3
func HarnessC10ServerDeadline() {
	proto := nondetChoice("proto", 3)
	malformed := nondetBool("malformed")
	serverHasDeadline := nondetBool("serverDeadline")
	verifRemaining = time.Hour // what is left of the server's own deadline (time.Until stub)
	userCalls := 0
	var seen time.Duration
	var has bool
	handler := NewUnaryHandler("/pkg.Svc/Method", func(ctx context.Context, req *Request[[]byte]) (*Response[[]byte], error) {
		userCalls++
		seen, has = ctxTimeoutOf(ctx)
		out := []byte{1}
		return NewResponse(&out), nil
	}, stackHandlerOptions()...)
	ct := []string{"application/proto", "application/grpc+proto", "application/grpc-web+proto"}[proto]
	body := []byte{0x41}
	if proto != 0 {
		body = refFrame(0, []byte{0x41})
	}
	header := http.Header{"Content-Type": {ct}}
	value := "5000"
	if proto != 0 {
		value = "5S"
	}
	if malformed {
		value = "5x"
	}
	header.Set([]string{connectHeaderTimeout, grpcHeaderTimeout, grpcHeaderTimeout}[proto], value)
	req := &http.Request{Method: "POST", ProtoMajor: 2, Header: header, Body: &faultReader{data: body, cut: len(body)}}
	if serverHasDeadline {
		req = req.WithContext(&deadlineCtx{deadline: time.Unix(4102444800, 0), has: true}) // far in the future
	}
	rec := newRecWriter()
	handler.ServeHTTP(rec, req)
	status, rh, rt, rbody := rec.finish()
	code, wellFormed := c07ResponseCode(proto, proto == 0, status, rh, rt, rbody)
	check(wellFormed, "the response is well-formed")
	if malformed {
		check(code == int(CodeInvalidArgument) && userCalls == 0, "a malformed timeout is rejected as invalid_argument without running user code, whatever deadline the server's context has")
		return
	}
	check(code == 0 && userCalls == 1, "a grammatical timeout is accepted")
	check(has && durMatches(seen, 5*time.Second), "the handler's context gets the peer's timeout, whatever deadline the server's context has")
}
