package connect

import (
	"context"
	"errors"
	"net/http"
)

// C11 - headers and trailers set by one side are observed by the other.

// c11Key returns prefix + a symbolic lower-case/digit suffix (canonical form,
// outside the protocol-reserved prefixes).
func c11Key(prefix, name string) string {
	suf := nondetStringN(name, 1)
	for i := 0; i < len(suf); i++ {
		assume((suf[i] >= 'a' && suf[i] <= 'z') || (suf[i] >= '0' && suf[i] <= '9'))
	}
	return prefix + suf
}

// c11FreeKey: a two-letter canonical key whose letters are both symbolic
// ([A-Z][a-z]); too short to collide with a protocol-reserved prefix, but it
// may start with any letter - including the letters of "Trailer-".
func c11FreeKey(name string) string {
	k := nondetStringN(name, 2)
	assume(k[0] >= 'A' && k[0] <= 'Z' && k[1] >= 'a' && k[1] <= 'z')
	assume(k != "Te") // TE is a hop-by-hop field, not metadata
	return k
}

// c11Val: printable ASCII without leading/trailing blanks (HTTP trims those).
func c11Val(name string, n int) string {
	v := nondetStringN(name, n)
	for i := 0; i < len(v); i++ {
		assume(v[i] > 0x20 && v[i] <= 0x7e)
	}
	return v
}

func sameValues(got []string, want ...string) bool {
	if len(got) != len(want) {
		return false
	}
	for i := range got {
		if got[i] != want[i] {
			return false
		}
	}
	return true
}

type c11Meta struct {
	hk, tk   string
	hv1, hv2 string
	tv       string
	bin      []byte
	reqK     string
	reqV     string
	padBin   bool // the peer renders -Bin values with base64 padding
	// binInUnion: also decode the -Bin value found in error metadata (unary harness only: symbolic base64 decoding is costly)
	binInUnion bool
	// repeat: the first header value and the trailer value are added a second
	// time (equal values under one key are still separate values)
	repeat bool
}

func c11Symbolic(padded ...bool) c11Meta {
	pad := false
	if len(padded) > 0 && padded[0] {
		pad = nondetBool("paddedBin")
	}
	return c11Meta{
		hk: c11Key("X-H", "hk"), tk: c11FreeKey("tk"),
		hv1: c11Val("hv1", 2), hv2: c11Val("hv2", 1), tv: c11Val("tv", 2),
		bin:  nondetBytes("bin", 2),
		reqK: c11Key("X-R", "rk"), reqV: c11Val("rv", 2),
		padBin: pad, binInUnion: len(padded) > 0 && padded[0],
	}
}

func (m c11Meta) wantH() []string {
	if m.repeat {
		return []string{m.hv1, m.hv2, m.hv1}
	}
	return []string{m.hv1, m.hv2}
}

func (m c11Meta) wantT() []string {
	if m.repeat {
		return []string{m.tv, m.tv}
	}
	return []string{m.tv}
}

func (m c11Meta) setOn(h, t http.Header) {
	h.Add(m.hk, m.hv1)
	h.Add(m.hk, m.hv2)
	if m.repeat {
		h.Add(m.hk, m.hv1)
	}
	bin := EncodeBinaryHeader(m.bin)
	if m.padBin {
		for len(bin)%4 != 0 {
			bin += "="
		}
	}
	h.Set("X-B-Bin", bin)
	t.Set(m.tk, m.tv)
	if m.repeat {
		t.Add(m.tk, m.tv)
	}
}

func (m c11Meta) checkSplit(h, t http.Header) {
	check(sameValues(h.Values(m.hk), m.wantH()...), "response headers arrive under headers with values and order preserved")
	b, err := DecodeBinaryHeader(h.Get("X-B-Bin"))
	check(err == nil && bytesEq(b, m.bin), "binary header values arrive unchanged (padded or unpadded rendering)")
	check(sameValues(t.Values(m.tk), m.wantT()...), "response trailers arrive under trailers")
}

func (m c11Meta) checkUnion(all http.Header, what string) {
	check(sameValues(all.Values(m.hk), m.wantH()...), what+": header values are all present, in order")
	check(sameValues(all.Values(m.tk), m.wantT()...), what+": trailer values are all present")
	if m.binInUnion {
		b, err := DecodeBinaryHeader(all.Get("X-B-Bin"))
		check(err == nil && bytesEq(b, m.bin), what+": binary values arrive unchanged (padded or unpadded rendering)")
	}
}

// HarnessC11Unary: unary calls, success and failure, three protocols.
//
//verif:harness property=C11 stubs=json,wire shard=proto:3 cross=z3-new
func HarnessC11Unary() {
	proto := nondetChoice("proto", 3)
	fail := nondetBool("fail")
	m := c11Symbolic(true)
	var seenReq []string
	handler := NewUnaryHandler("/pkg.Svc/Method", func(ctx context.Context, req *Request[[]byte]) (*Response[[]byte], error) {
		seenReq = req.Header().Values(m.reqK)
		if fail {
			e := NewError(CodeAborted, errors.New("no"))
			m.setOn(e.Meta(), e.Meta())
			return nil, e
		}
		out := []byte{5}
		res := NewResponse(&out)
		m.setOn(res.Header(), res.Trailer())
		return res, nil
	}, stackHandlerOptions()...)
	client := NewClient[[]byte, []byte](&stackTransport{handler: handler}, stackURL, stackClientOptions(proto)...)
	in := []byte{1}
	req := NewRequest(&in)
	req.Header().Set(m.reqK, m.reqV)
	res, err := client.CallUnary(context.Background(), req)
	check(sameValues(seenReq, m.reqV), "request headers set by the client are visible to the handler")
	if fail {
		check(err != nil, "the call fails")
		if ce, ok := asError(err); ok {
			m.checkUnion(ce.Meta(), "error metadata")
		} else {
			check(false, "the client error is a *connect.Error")
		}
		return
	}
	check(err == nil && res != nil, "the call succeeds")
	if err == nil && res != nil {
		m.checkSplit(res.Header(), res.Trailer())
	}
}

// HarnessC11ServerStream: streaming responses: 0 or 1 message, then nil or an error.
//
//verif:harness property=C11 stubs=json,wire shard=proto:3 cross=z3-new
func HarnessC11ServerStream() {
	proto := nondetChoice("proto", 3)
	sent := nondetChoice("sent", 2)
	fail := nondetBool("fail")
	sameKey := fail && nondetBool("errorMetaSharesTrailerKey")
	m := c11Symbolic()
	m.repeat = !sameKey && nondetBool("repeatedValues")
	var seenReq []string
	handler := NewServerStreamHandler("/pkg.Svc/Method", func(ctx context.Context, req *Request[[]byte], s *ServerStream[[]byte]) error {
		seenReq = req.Header().Values(m.reqK)
		m.setOn(s.ResponseHeader(), s.ResponseTrailer())
		for i := 0; i < sent; i++ {
			out := []byte{5}
			if err := s.Send(&out); err != nil {
				return err
			}
		}
		if fail {
			e := NewError(CodeAborted, errors.New("no"))
			if sameKey {
				// error metadata under the very key the handler also used for a trailer
				e.Meta().Add(m.tk, "meta")
			}
			return e
		}
		return nil
	}, stackHandlerOptions()...)
	client := NewClient[[]byte, []byte](&stackTransport{handler: handler}, stackURL, stackClientOptions(proto)...)
	in := []byte{1}
	req := NewRequest(&in)
	req.Header().Set(m.reqK, m.reqV)
	stream, err := client.CallServerStream(context.Background(), req)
	check(err == nil, "starting the stream succeeds")
	if err != nil {
		return
	}
	got := 0
	for stream.Receive() {
		got++
	}
	check(got == sent, "the messages arrive")
	check(sameValues(seenReq, m.reqV), "request headers set by the client are visible to the handler")
	serr := stream.Err()
	switch {
	case fail:
		check(serr != nil, "the call fails")
		if ce, ok := asError(serr); ok {
			if sameKey {
				vals := ce.Meta().Values(m.tk)
				check(containsStr(vals, m.tv) && containsStr(vals, "meta") && len(vals) == 2, "a trailer and error metadata under the same key both reach the client")
				check(sameValues(ce.Meta().Values(m.hk), m.wantH()...), "error metadata: header values are all present, in order")
			} else {
				m.checkUnion(ce.Meta(), "error metadata")
			}
		}
	case sent >= 1:
		check(serr == nil, "the call succeeds")
		m.checkSplit(stream.ResponseHeader(), stream.ResponseTrailer())
	default:
		// no message: a protocol may fold everything into one block
		check(serr == nil, "the call succeeds")
		all := stream.ResponseHeader().Clone()
		mergeHeaders(all, stream.ResponseTrailer())
		m.checkUnion(all, "headers and trailers of a body-less response")
	}
	_ = stream.Close()
}

// HarnessC11Merge: mergeHeaders appends, preserving order, dropping nothing.
//
//verif:harness property=C11
func HarnessC11Merge() {
	keys := []string{"A", "B", "C"}
	mk := func(tag string) http.Header {
		h := make(http.Header)
		for _, k := range keys {
			n := nondetChoice(tag+"n"+k, 3)
			for i := 0; i < n; i++ {
				h[k] = append(h[k], nondetStringN(tag+"v", 1))
			}
		}
		return h
	}
	into, from := mk("into"), mk("from")
	before := into.Clone()
	mergeHeaders(into, from)
	for _, k := range keys {
		want := append(append([]string{}, before[k]...), from[k]...)
		check(sameValues(into[k], want...), "mergeHeaders yields into[k] followed by from[k]")
	}
}
