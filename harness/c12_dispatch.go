package connect

import (
	"context"
	"net/http"
	"strings"
)

// C12 - requests are dispatched by method, HTTP version and Content-Type as advertised.

type c12Observer struct {
	calls     int
	spec      Spec
	userCalls int
}

func (o *c12Observer) WrapUnary(next UnaryFunc) UnaryFunc {
	return func(ctx context.Context, req AnyRequest) (AnyResponse, error) {
		o.calls++
		o.spec = req.Spec()
		return next(ctx, req)
	}
}
func (o *c12Observer) WrapStreamingClient(next StreamingClientFunc) StreamingClientFunc {
	return func(ctx context.Context, spec Spec) StreamingClientConn {
		o.calls++
		o.spec = spec
		return next(ctx, spec)
	}
}
func (o *c12Observer) WrapStreamingHandler(next StreamingHandlerFunc) StreamingHandlerFunc {
	return func(ctx context.Context, conn StreamingHandlerConn) error {
		o.calls++
		o.spec = conn.Spec()
		return next(ctx, conn)
	}
}

// extra codec names: none, a plain one, and one that itself contains the '+'
// that separates protocol and codec in the media type.
// ... and one whose Connect unary media type coincides with a gRPC one.
var c12ExtraNames = []string{"", "x", "x+y", "grpc"}

// c12Passive is a second, do-nothing interceptor.
type c12Passive struct{}

func (*c12Passive) WrapUnary(next UnaryFunc) UnaryFunc { return next }
func (*c12Passive) WrapStreamingClient(next StreamingClientFunc) StreamingClientFunc {
	return next
}
func (*c12Passive) WrapStreamingHandler(next StreamingHandlerFunc) StreamingHandlerFunc {
	return next
}

func c12Handler(kind int, obs *c12Observer, extraCodec string) *Handler {
	opts := []HandlerOption{WithCodec(&stackCodec{}), WithCodec(&stackCodec{name: "json"}), WithCompressMinBytes(1 << 20), WithInterceptors(obs)}
	if extraCodec != "" {
		opts = append(opts, WithCodec(&stackCodec{name: extraCodec}))
	}
	// a second interceptor-carrying option, and the same option values used
	// for another handler first, as generated service constructors do for
	// every procedure: "exactly once" must not depend on how often the option
	// values have been applied
	opts = append(opts, WithInterceptors(&c12Passive{}))
	_ = NewUnaryHandler("/pkg.Svc/Other", func(ctx context.Context, req *Request[[]byte]) (*Response[[]byte], error) {
		return nil, nil
	}, opts...)
	switch kind {
	case 0:
		return NewUnaryHandler("/pkg.Svc/Method", func(ctx context.Context, req *Request[[]byte]) (*Response[[]byte], error) {
			obs.userCalls++
			out := []byte{1}
			return NewResponse(&out), nil
		}, opts...)
	case 1:
		return NewClientStreamHandler("/pkg.Svc/Method", func(ctx context.Context, s *ClientStream[[]byte]) (*Response[[]byte], error) {
			obs.userCalls++
			out := []byte{1}
			return NewResponse(&out), nil
		}, opts...)
	case 2:
		return NewServerStreamHandler("/pkg.Svc/Method", func(ctx context.Context, req *Request[[]byte], s *ServerStream[[]byte]) error {
			obs.userCalls++
			return nil
		}, opts...)
	}
	return NewBidiStreamHandler("/pkg.Svc/Method", func(ctx context.Context, s *BidiStream[[]byte, []byte]) error {
		obs.userCalls++
		return nil
	}, opts...)
}

// c12Accepted is the reference set of content types, written from the
// property: protocol prefixes x codec names, plus the bare gRPC types when a
// proto codec is registered.
func c12Accepted(kind int, extraCodec string) []string {
	names := []string{"proto", "json"}
	if extraCodec != "" {
		names = append(names, extraCodec)
	}
	var out []string
	for _, n := range names {
		if kind == 0 {
			out = append(out, "application/"+n)
		} else {
			out = append(out, "application/connect+"+n)
		}
		out = append(out, "application/grpc+"+n, "application/grpc-web+"+n)
	}
	out = append(out, "application/grpc", "application/grpc-web")
	// a set: each accepted type once
	var set []string
	for _, t := range out {
		if !containsStr(set, t) {
			set = append(set, t)
		}
	}
	return set
}

func containsStr(set []string, s string) bool {
	for _, x := range set {
		if x == s {
			return true
		}
	}
	return false
}

// emptyBodyFor returns a request body that lets an accepted request run the
// user function: unary/server-stream requests need one (empty) message.
func c12Body(kind int, ct string) []byte {
	if kind == 0 && strings.HasPrefix(ct, "application/") && !strings.HasPrefix(ct, "application/grpc") {
		return nil // unary Connect: the body is the message
	}
	if kind == 0 || kind == 2 {
		return []byte{0, 0, 0, 0, 0} // one empty enveloped message
	}
	return nil
}

// HarnessC12Guards: symbolic method, protocol version and Content-Type
// against handlers built by the real constructors.
//
//verif:harness property=C12 stubs=json,wire shard=kind:4
func HarnessC12Guards() {
	kind := nondetChoice("kind", 4)
	extraCodec := c12ExtraNames[nondetChoice("extraCodec", 4)]
	obs := &c12Observer{}
	handler := c12Handler(kind, obs, extraCodec)
	accepted := c12Accepted(kind, extraCodec)

	methodIsPost := nondetBool("post")
	method := "POST"
	if !methodIsPost {
		method = nondetString("method", 5)
		assume(method != "POST")
	}
	protoMajor := nondetInt("protoMajor")
	assume(protoMajor >= 0 && protoMajor <= 3)
	ct := nondetString("contentType", bound("ctLen", 27, 28))

	rec := newRecWriter()
	req := &http.Request{Method: method, ProtoMajor: protoMajor, Header: http.Header{}, Body: http.NoBody}
	if ct != "" {
		req.Header["Content-Type"] = []string{ct}
	}
	req.Body = &countingBody{Reader: &wholeReader{data: c12Body(kind, ct)}}
	handler.ServeHTTP(rec, req)
	status, header, _, _ := rec.finish()

	switch {
	case kind == 3 && protoMajor < 2:
		check(status == http.StatusHTTPVersionNotSupported, "bidi over HTTP/1.x is answered with 505")
		check(obs.calls == 0 && obs.userCalls == 0, "rejected requests never reach interceptors or user code")
	case !methodIsPost:
		check(status == http.StatusMethodNotAllowed, "non-POST requests are answered with 405")
		check(header.Get("Allow") == "POST", "405 responses carry Allow: POST")
		check(obs.calls == 0 && obs.userCalls == 0, "rejected requests never reach interceptors or user code")
	case !containsStr(accepted, ct):
		check(status == http.StatusUnsupportedMediaType, "a Content-Type that is not served is answered with 415")
		adv := strings.Split(header.Get("Accept-Post"), ", ")
		ok := len(adv) == len(accepted)
		for _, a := range accepted {
			ok = ok && containsStr(adv, a)
		}
		check(ok, "Accept-Post lists exactly the accepted content types")
		check(obs.calls == 0 && obs.userCalls == 0, "rejected requests never reach interceptors or user code")
	default:
		check(status != http.StatusUnsupportedMediaType && status != http.StatusMethodNotAllowed && status != http.StatusHTTPVersionNotSupported,
			"an advertised Content-Type is served")
		check(obs.calls == 1, "interceptors run exactly once for a served request")
		check(obs.userCalls == 1, "user code runs exactly once for a served request")
		wantType := []StreamType{StreamTypeUnary, StreamTypeClient, StreamTypeServer, StreamTypeBidi}[kind]
		check(obs.spec.Procedure == "/pkg.Svc/Method" && obs.spec.StreamType == wantType && !obs.spec.IsClient,
			"the Spec carries the procedure and stream type the handler was built with")
	}
}

// HarnessC12SpecPath: client and handler derive the same procedure from URL
// and procedure name, whatever the base URL looks like.
//
//verif:harness property=C12
func HarnessC12SpecPath() {
	base := nondetString("base", bound("baseLen", 6, 8))
	svc := nondetString("svc", 3)
	method := nondetString("method", 3)
	assume(len(svc) > 0 && len(method) > 0)
	for i := 0; i < len(svc); i++ {
		assume(svc[i] != '/')
	}
	for i := 0; i < len(method); i++ {
		assume(method[i] != '/')
	}
	// generated code trims trailing slashes from the base URL
	trimmed := strings.TrimRight(base, "/")
	procedure := "/" + svc + "/" + method
	clientSide := extractProtoPath(trimmed + procedure)
	handlerSide := extractProtoPath(procedure)
	check(handlerSide == procedure, "the handler's Spec procedure is the canonical path")
	check(clientSide == procedure, "the client's Spec procedure is the canonical path for every base URL")
}

// HarnessC12ClientSpec: the Spec seen by the client's interceptors equals the
// one seen by the handler's, for base URLs with and without path prefixes and
// trailing slashes (as the generated constructors build them:
// TrimRight(base, "/") + procedure).
//
//verif:harness property=C12 stubs=json,wire
func HarnessC12ClientSpec() {
	kind := nondetChoice("kind", 2) // unary, server stream
	base := []string{"http://h.test", "http://h.test/", "http://h.test/api", "http://h.test/api/", "http://h.test/gw/v1", "https://h.test:8443/a.b"}[nondetChoice("base", 6)]
	hobs, cobs := &c12Observer{}, &c12Observer{}
	handler := c12Handler([]int{0, 2}[kind], hobs, "")
	url := strings.TrimRight(base, "/") + "/pkg.Svc/Method"
	client := NewClient[[]byte, []byte](&stackTransport{handler: handler}, url,
		WithCodec(&stackCodec{}), WithCompressMinBytes(1<<20), WithInterceptors(cobs))
	in := []byte{1}
	if kind == 0 {
		_, err := client.CallUnary(context.Background(), NewRequest(&in))
		check(err == nil, "the call succeeds")
	} else {
		stream, err := client.CallServerStream(context.Background(), NewRequest(&in))
		check(err == nil, "the call succeeds")
		if err == nil {
			for stream.Receive() {
			}
			_ = stream.Close()
		}
	}
	check(cobs.calls == 1 && hobs.calls == 1, "interceptors on both sides run exactly once")
	check(cobs.spec.Procedure == "/pkg.Svc/Method", "the client's Spec carries the canonical procedure for every base URL shape")
	check(cobs.spec.Procedure == hobs.spec.Procedure && cobs.spec.StreamType == hobs.spec.StreamType, "client and handler interceptors see the same procedure and stream type")
	check(cobs.spec.IsClient && !hobs.spec.IsClient, "IsClient tells the two sides apart")
}
