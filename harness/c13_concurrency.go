package connect

import (
	"bytes"
	"context"
	"errors"
	"io"
	"net/http"
	"sync"
)

// C13 - concurrent calls on shared clients and handlers never interfere.
//
// What is decided here (see DESIGN.md for what is not): (1) the pool
// ownership discipline - with sync.Pool modelled so that Put havocs the
// released buffer and Get may return any pooled object, any use of a buffer
// after its release, or any value handed to user code that still aliases a
// pooled buffer, corrupts a result; (2) bounded interleavings of two calls on
// one Client/Handler pair, and of a sender and a receiver goroutine on one
// stream, explored by the engine's scheduler.

func c13Client(proto int, compress bool, extra ...ClientOption) *Client[[]byte, []byte] {
	return c13ClientWith(proto, compress, nil, extra...)
}

func c13ClientWith(proto int, compress bool, wrap func(HTTPClient) HTTPClient, extra ...ClientOption) *Client[[]byte, []byte] {
	minBytes := 1 << 20
	if compress {
		minBytes = 0
	}
	hopts := []HandlerOption{WithCodec(&stackCodec{}), WithCompressMinBytes(minBytes), c08XorHandler("gzip")}
	handler := NewUnaryHandler("/pkg.Svc/Method", func(ctx context.Context, req *Request[[]byte]) (*Response[[]byte], error) {
		if len(*req.Msg) > 0 && (*req.Msg)[0] == 'E' {
			e := NewError(CodeAborted, errors.New("err:"+string(*req.Msg)))
			e.Meta().Set("X-Echo", c13Tag(*req.Msg))
			return nil, e
		}
		out := append([]byte{0xA0}, *req.Msg...)
		res := NewResponse(&out)
		res.Header().Set("X-Echo", c13Tag(*req.Msg))
		return res, nil
	}, hopts...)
	copts := []ClientOption{WithCodec(&stackCodec{}), WithCompressMinBytes(minBytes), c08XorClient("gzip")}
	if compress {
		copts = append(copts, WithSendCompression("gzip"))
	}
	switch proto {
	case 1:
		copts = append(copts, WithGRPC())
	case 2:
		copts = append(copts, WithGRPCWeb())
	}
	copts = append(copts, extra...)
	var tr HTTPClient = &freshTransport{handler: handler}
	if wrap != nil {
		tr = wrap(tr)
	}
	return NewClient[[]byte, []byte](tr, stackURL, copts...)
}

// freshTransport serves every request with its own recorder (calls may overlap).
type freshTransport struct{ handler *Handler }

func (t *freshTransport) Do(req *http.Request) (*http.Response, error) {
	return (&stackTransport{handler: t.handler}).Do(req)
}

// c13Tag renders bytes as letters (two per byte): a cheap, injective,
// header-safe function of the payload.
func c13Tag(b []byte) string {
	out := make([]byte, 0, 2*len(b))
	for _, x := range b {
		out = append(out, 'a'+(x>>4), 'a'+(x&15))
	}
	return string(out)
}

// c13Payload: printable ASCII (error texts travel through JSON / protobuf
// strings natively, which only carry valid UTF-8 unchanged).
func c13Payload(name string, n int) []byte {
	p := nondetBytesN(name, n)
	for _, x := range p {
		assume(x > 0x20 && x < 0x7f && x != '"' && x != '\\')
	}
	return p
}

type c13Result struct {
	msg    []byte
	echo   string
	errMsg string
	failed bool
}

func c13Call(client *Client[[]byte, []byte], payload []byte) (*Response[[]byte], error, c13Result) {
	in := append([]byte{}, payload...)
	res, err := client.CallUnary(context.Background(), NewRequest(&in))
	var r c13Result
	if err != nil {
		r.failed = true
		if ce, ok := asError(err); ok {
			r.errMsg = ce.Message()
			r.echo = ce.Meta().Get("X-Echo")
		}
		return res, err, r
	}
	r.msg = *res.Msg
	r.echo = res.Header().Get("X-Echo")
	return res, err, r
}

func c13Expect(r c13Result, payload []byte, what string) {
	if len(payload) > 0 && payload[0] == 'E' {
		check(r.failed && r.errMsg == "err:"+string(payload), what+": the error text is the call's own")
	} else {
		check(!r.failed && bytesEq(r.msg, append([]byte{0xA0}, payload...)), what+": the response message is the call's own")
	}
	check(r.echo == c13Tag(payload), what+": the header value is the call's own")
}

// HarnessC13PoolReuse: two calls one after the other on shared pools; the
// values handed to user code by the first call must be intact after the
// second one ran.  (Pool model: Get returns the most recently released
// object - so the second call works in the first call's buffers - and Put
// havocs the released buffer.)
//
//verif:harness property=C13 stubs=json,wire shard=proto:3
func HarnessC13PoolReuse() {
	proto := nondetChoice("proto", 3)
	compress := nondetBool("compress")
	client := c13Client(proto, compress)
	a := c13Payload("a", 2)
	b := c13Payload("b", 2)
	resA, errA, ra := c13Call(client, a)
	c13Expect(ra, a, "first call")
	_, _, rb := c13Call(client, b)
	c13Expect(rb, b, "second call")
	// re-read what the first call handed out, through the original objects
	var again c13Result
	if errA != nil {
		again.failed = true
		if ce, ok := asError(errA); ok {
			again.errMsg = ce.Message()
			again.echo = ce.Meta().Get("X-Echo")
		}
	} else {
		again.msg = *resA.Msg
		again.echo = resA.Header().Get("X-Echo")
	}
	c13Expect(again, a, "first call, after the second call ran")
}

// HarnessC13ConcurrentCalls: two goroutines call through one Client and one
// Handler; the scheduler explores preemptions at every synchronisation point
// and every pool operation.
//
//verif:harness property=C13 stubs=json,wire sched=explore preempt=1 preemptT=1 shard=proto:3 race=on
func HarnessC13ConcurrentCalls() {
	proto := nondetChoice("proto", 3)
	client := c13Client(proto, nondetBool("compress"))
	a := c13Payload("a", 1)
	b := c13Payload("b", 1)
	var ra, rb c13Result
	var wg sync.WaitGroup
	wg.Add(2)
	go func() {
		defer wg.Done()
		_, _, ra = c13Call(client, a)
	}()
	go func() {
		defer wg.Done()
		_, _, rb = c13Call(client, b)
	}()
	wg.Wait()
	c13Expect(ra, a, "call A under concurrency")
	c13Expect(rb, b, "call B under concurrency")
}

// HarnessC13DuplexStream: one stream, a sender goroutine and a receiver goroutine.
//
//verif:harness property=C13 stubs=json,wire sched=explore preempt=2 preemptT=3 shard=proto:3 race=on
func HarnessC13DuplexStream() {
	proto := nondetChoice("proto", 3)
	handler := NewBidiStreamHandler("/pkg.Svc/Method", func(ctx context.Context, s *BidiStream[[]byte, []byte]) error {
		n := byte(0)
		for {
			m, err := s.Receive()
			if err != nil {
				if errors.Is(err, io.EOF) {
					break
				}
				return err
			}
			n += (*m)[0]
		}
		out := []byte{n}
		return s.Send(&out)
	}, stackHandlerOptions()...)
	client := NewClient[[]byte, []byte](&stackTransport{handler: handler}, stackURL, stackClientOptions(proto)...)
	stream := client.CallBidiStream(context.Background())
	x, y := nondetByte("x"), nondetByte("y")
	var sendErr, recvErr error
	var got []byte
	var wg sync.WaitGroup
	wg.Add(2)
	go func() {
		defer wg.Done()
		for _, v := range []byte{x, y} {
			m := []byte{v}
			if err := stream.Send(&m); err != nil {
				sendErr = err
				break
			}
		}
		if err := stream.CloseRequest(); err != nil && sendErr == nil {
			sendErr = err
		}
	}()
	go func() {
		defer wg.Done()
		for {
			m, err := stream.Receive()
			if err != nil {
				if !errors.Is(err, io.EOF) {
					recvErr = err
				}
				return
			}
			got = append(got, *m...)
		}
	}()
	wg.Wait()
	check(sendErr == nil && recvErr == nil, "sending and receiving concurrently on one stream both succeed")
	check(len(got) == 1 && got[0] == x+y, "the concurrently received response is the handler's answer to what was sent")
	_ = stream.CloseResponse()
}

// idTransport answers every request with 200, no grpc-status anywhere, and a
// header that identifies the call.
type idTransport struct{}

func (idTransport) Do(req *http.Request) (*http.Response, error) {
	_, _ = io.Copy(io.Discard, req.Body)
	_ = req.Body.Close()
	h := http.Header{"Content-Type": {req.Header.Get("Content-Type")}, "X-Call": {req.Header.Get("X-Call")}}
	return &http.Response{StatusCode: 200, Status: "200 OK", ProtoMajor: 2, Header: h, Trailer: http.Header{}, Body: io.NopCloser(bytes.NewReader(nil)), Request: req}, nil
}

// HarnessC13ErrorIsolation: errors handed to user code stay the caller's own:
// two failing calls (a response without any status) must return distinct
// error values, and the first one's metadata must be unchanged after the second.
//
//verif:harness property=C13 stubs=json,wire
func HarnessC13ErrorIsolation() {
	proto := 1 + nondetChoice("proto", 2) // gRPC, gRPC-Web (an empty 200 response is a valid Connect unary response)
	client := NewClient[[]byte, []byte](idTransport{}, stackURL, stackClientOptions(proto)...)
	call := func(id string) error {
		in := []byte{1}
		req := NewRequest(&in)
		req.Header().Set("X-Call", id)
		_, err := client.CallUnary(context.Background(), req)
		return err
	}
	ida := c13Tag(c13Payload("a", 1))
	idb := c13Tag(c13Payload("b", 1))
	errA := call(ida)
	check(errA != nil, "a response without a status is an error")
	if errA == nil {
		return
	}
	ceA, okA := asError(errA)
	check(okA, "the error is a *connect.Error")
	if !okA {
		return
	}
	before := ceA.Meta().Get("X-Call")
	errB := call(idb)
	ceB, okB := asError(errB)
	if okB {
		check(ceA != ceB, "two calls never hand out the same error value")
		check(ceB.Meta().Get("X-Call") == idb || ceB.Meta().Get("X-Call") == "", "the second error carries its own call's headers")
	}
	check(ceA.Meta().Get("X-Call") == before, "an error's metadata is intact after another call ran")
	check(before == ida || before == "", "the first error carries its own call's headers")
}

// bombFirstTransport answers the first request with a canned response whose
// compressed message is small on the wire and large once decompressed; later
// requests go to the real handler.
type bombFirstTransport struct {
	inner HTTPClient
	proto int
	calls int
}

func (t *bombFirstTransport) Do(req *http.Request) (*http.Response, error) {
	t.calls++
	if t.calls > 1 {
		return t.inner.Do(req)
	}
	_, _ = io.Copy(io.Discard, req.Body)
	_ = req.Body.Close()
	resp := c06CompressedResponse(t.proto, t.proto == 0, []byte{0xC6, 64, 0x41 ^ 0x5A})
	resp.Request = req
	return resp, nil
}

// HarnessC13AfterRejectedMessage: a history, then sharing.  The first call's
// compressed response fits the client's read limit on the wire (3 bytes) and
// decompresses to 64 bytes: past the limit of 48, within the limit of 96.
// Afterwards the pooled objects of that client must still be exclusively
// owned: two decompressors checked out at the same time are different objects
// (an object returned to the pool twice would be handed to two concurrent
// calls), and a later call is served its own response.
//
//verif:harness property=C13 stubs=json,wire shard=proto:3
func HarnessC13AfterRejectedMessage() {
	proto := nondetChoice("proto", 3)
	limit := []int{48, 96}[nondetChoice("limit", 2)] // (above the size of a gRPC-Web trailer frame)
	client := c13ClientWith(proto, true, func(inner HTTPClient) HTTPClient {
		return &bombFirstTransport{inner: inner, proto: proto}
	}, WithReadMaxBytes(limit))
	in := []byte{1}
	res, errA := client.CallUnary(context.Background(), NewRequest(&in))
	if limit == 48 {
		check(errA != nil, "a response that decompresses past the read limit is rejected")
	} else {
		check(errA == nil && len(*res.Msg) == 64, "a response that decompresses to within the read limit is accepted")
	}
	pool := client.config.CompressionPools["gzip"]
	check(pool != nil, "the client has a pool for the negotiated compression")
	if pool == nil {
		return
	}
	d1, e1 := pool.getDecompressor(bytes.NewBuffer(nil))
	d2, e2 := pool.getDecompressor(bytes.NewBuffer(nil))
	check(e1 == nil && e2 == nil, "checking out decompressors succeeds")
	check(d1 != d2, "two calls never share a pooled decompressor, whatever the client has rejected before")
	_ = pool.putDecompressor(d1)
	_ = pool.putDecompressor(d2)
	b := c13Payload("b", 1)
	_, _, rb := c13Call(client, b)
	c13Expect(rb, b, "a later call on the same client")
}

// HarnessC13FullDuplexStream: one bidirectional stream over the full-duplex
// transport, a sender goroutine and a receiver goroutine running truly
// concurrently with an echoing handler (each message is answered before the
// next one is read); explored schedules, happens-before monitor on.
//
//verif:harness property=C13 stubs=json,wire sched=explore preempt=1 preemptT=2 shard=proto:3 race=on
func HarnessC13FullDuplexStream() {
	proto := nondetChoice("proto", 3)
	handler := NewBidiStreamHandler("/pkg.Svc/Method", func(ctx context.Context, s *BidiStream[[]byte, []byte]) error {
		s.ResponseHeader().Set("X-Stream", "s1")
		for {
			m, err := s.Receive()
			if err != nil {
				if errors.Is(err, io.EOF) {
					return nil
				}
				return err
			}
			out := []byte{(*m)[0] ^ 0xFF}
			if err := s.Send(&out); err != nil {
				return err
			}
		}
	}, stackHandlerOptions()...)
	client := NewClient[[]byte, []byte](&duplexTransport{handler: handler}, stackURL, stackClientOptions(proto)...)
	stream := client.CallBidiStream(context.Background())
	x, y := nondetByte("x"), nondetByte("y")
	var sendErr, recvErr error
	var got []byte
	var wg sync.WaitGroup
	wg.Add(2)
	go func() {
		defer wg.Done()
		for _, v := range []byte{x, y} {
			m := []byte{v}
			if err := stream.Send(&m); err != nil {
				sendErr = err
				break
			}
		}
		if err := stream.CloseRequest(); err != nil && sendErr == nil {
			sendErr = err
		}
	}()
	var earlyHeader string
	go func() {
		defer wg.Done()
		// asking for the response headers first must wait for them, not
		// hand out a map the request goroutine is still going to fill
		earlyHeader = stream.ResponseHeader().Get("X-Stream")
		for {
			m, err := stream.Receive()
			if err != nil {
				if !errors.Is(err, io.EOF) {
					recvErr = err
				}
				return
			}
			got = append(got, *m...)
			if len(got) > 3 {
				return
			}
		}
	}()
	wg.Wait()
	check(sendErr == nil && recvErr == nil, "sending and receiving concurrently on one full-duplex stream both succeed")
	check(len(got) == 2 && got[0] == x^0xFF && got[1] == y^0xFF, "the echoes arrive intact and in order while the sender is still sending")
	check(earlyHeader == "s1", "response headers asked for before the first Receive are the handler's")
	_ = stream.CloseResponse()
	check(verifQuiesce() == 0, "no goroutine remains after the stream")
}

// HarnessC13CancelledDuplex: a sender and a receiver goroutine on one
// full-duplex stream whose context becomes done at a symbolic poll: the
// sender's failing Send records the error while the receiver is reading.
// Both goroutines must return, errors are coded, nothing is left behind -
// and the happens-before monitor watches the state the two goroutines and
// the library's request goroutine share (sticky error, response, pipe).
//
//verif:harness property=C13 stubs=json,wire sched=explore preempt=1 preemptT=1 shard=proto:3 race=on
func HarnessC13CancelledDuplex() {
	proto := nondetChoice("proto", 3)
	ctx := &pollCtx{kind: nondetChoice("kind", 2)}
	ctx.at = nondetInt("at")
	assume(ctx.at >= 0 && ctx.at <= bound("cancelPolls", 4, 6))
	handler := NewBidiStreamHandler("/pkg.Svc/Method", func(_ context.Context, s *BidiStream[[]byte, []byte]) error {
		for {
			m, err := s.Receive()
			if err != nil {
				if errors.Is(err, io.EOF) {
					return nil
				}
				return err
			}
			out := []byte{(*m)[0] ^ 0xFF}
			if err := s.Send(&out); err != nil {
				return err
			}
		}
	}, stackHandlerOptions()...)
	client := NewClient[[]byte, []byte](&duplexTransport{handler: handler}, stackURL, stackClientOptions(proto)...)
	stream := client.CallBidiStream(ctx)
	var sendErr, recvErr error
	got := 0
	var wg sync.WaitGroup
	wg.Add(2)
	go func() {
		defer wg.Done()
		for _, v := range []byte{1, 2} {
			m := []byte{v}
			if err := stream.Send(&m); err != nil {
				sendErr = err
				break
			}
		}
		_ = stream.CloseRequest()
	}()
	go func() {
		defer wg.Done()
		for {
			_, err := stream.Receive()
			if err != nil {
				recvErr = err
				return
			}
			got++
			if got > 3 {
				return
			}
		}
	}()
	wg.Wait()
	check(got <= 2, "no more responses than requests")
	if sendErr != nil && !errors.Is(sendErr, io.EOF) {
		check(CodeOf(sendErr) == ctx.wantCode(), "a Send that fails because the context is done is reported as canceled / deadline_exceeded")
	}
	check(recvErr != nil, "the receive loop ends")
	if recvErr != nil && !errors.Is(recvErr, io.EOF) {
		ce, ok := asError(recvErr)
		check(ok && ce.Code() != 0, "a Receive that fails is a coded error")
	}
	_ = stream.CloseResponse()
	check(verifQuiesce() == 0, "no goroutine remains after the cancelled stream")
}

// HarnessC13SharedHandlerError: values owned by user code on the handler
// side.  A streaming handler ends every call by returning the same
// package-level *Error value (a sentinel) after setting a per-call response
// trailer.  Nothing of one call may show up in another: the second call's
// error metadata and trailers carry only its own call id, and the library
// must not write into the sentinel the handler returned.
//
//verif:harness property=C13 stubs=json,wire shard=proto:3
func HarnessC13SharedHandlerError() {
	proto := nondetChoice("proto", 3)
	sentinel := NewError(CodeAborted, errors.New("shared"))
	sentinel.Meta().Set("X-Static", "s")
	handler := NewServerStreamHandler("/pkg.Svc/Method", func(ctx context.Context, req *Request[[]byte], s *ServerStream[[]byte]) error {
		s.ResponseTrailer().Set("X-Call-Id", c13Tag(*req.Msg))
		if nondetBool("sendFirst") {
			out := []byte{1}
			if err := s.Send(&out); err != nil {
				return err
			}
		}
		return sentinel
	}, stackHandlerOptions()...)
	client := NewClient[[]byte, []byte](&freshTransport{handler: handler}, stackURL, stackClientOptions(proto)...)
	call := func(payload []byte) (http.Header, http.Header) {
		in := append([]byte{}, payload...)
		stream, err := client.CallServerStream(context.Background(), NewRequest(&in))
		check(err == nil, "starting the stream succeeds")
		if err != nil {
			return nil, nil
		}
		n := 0
		for stream.Receive() {
			n++
			if n > 2 {
				break
			}
		}
		serr := stream.Err()
		check(CodeOf(serr) == CodeAborted, "the handler's error arrives")
		var meta http.Header
		if ce, ok := asError(serr); ok {
			meta = ce.Meta()
		}
		tr := stream.ResponseTrailer()
		_ = stream.Close()
		return meta, tr
	}
	a := c13Payload("a", 1)
	b := c13Payload("b", 1)
	assume(a[0] != b[0])
	metaA, _ := call(a)
	metaB, trB := call(b)
	if metaA != nil {
		check(sameValues(metaA.Values("X-Call-Id"), c13Tag(a)), "the first call's error metadata carries its own call id")
	}
	if metaB != nil {
		check(sameValues(metaB.Values("X-Call-Id"), c13Tag(b)), "the second call's error metadata carries only its own call id")
		check(sameValues(metaB.Values("X-Static"), "s"), "the error's own metadata arrives once")
	}
	if trB != nil {
		vals := trB.Values("X-Call-Id")
		check(len(vals) == 0 || sameValues(vals, c13Tag(b)), "the second call's trailers carry only its own call id")
	}
	check(len(sentinel.Meta()) == 1 && sameValues(sentinel.Meta().Values("X-Static"), "s"), "the library does not write into the error value the handler returned")
}
