package connect

import (
	"context"
	"errors"
	"io"
)

// C14 - every call terminates and releases what it acquired.
// The transport model is half duplex: the handler runs on the request
// goroutine started by the library and the response becomes visible when it
// returns (as with HTTP/1.1); request bytes flow through the real io.Pipe.

type c14Handler struct {
	recv    int  // messages to receive before answering; 3 = drain until end-of-request
	send    int  // messages to send
	fail    bool // return an error at the end
	sawEOF  bool
	gotMsgs int
	done    bool
}

func (h *c14Handler) run(ctx context.Context, s *BidiStream[[]byte, []byte]) error {
	defer func() { h.done = true }()
	for h.recv == 3 || h.gotMsgs < h.recv {
		_, err := s.Receive()
		if err != nil {
			if errors.Is(err, io.EOF) {
				h.sawEOF = true
				break
			}
			return err
		}
		h.gotMsgs++
	}
	for i := 0; i < h.send; i++ {
		out := []byte{byte(0x40 + i)}
		if err := s.Send(&out); err != nil {
			return err
		}
	}
	if h.fail {
		return NewError(CodeAborted, errors.New("handler failed"))
	}
	return nil
}

func c14Run(proto int, explore bool) {
	h := &c14Handler{recv: nondetChoice("handlerRecv", 4), send: nondetChoice("handlerSend", 3), fail: nondetBool("handlerFail")}
	maxSends := bound("clientSends", 3, 4)
	if explore {
		maxSends = bound("clientSendsInterleaved", 2, 3)
	}
	sends := nondetChoice("clientSends", maxSends)
	handler := NewBidiStreamHandler("/pkg.Svc/Method", h.run, stackHandlerOptions()...)
	closes := 0
	tr := &stackTransport{handler: handler, bodyCloses: &closes}
	// second program shape: the client reads the response to its end before
	// closing its request side (possible when the handler does not wait for
	// end-of-request); with a transport that does not close the request body
	// for us, only the library's own bookkeeping can make a late Send fail.
	receiveFirst := false
	if sends >= 1 && h.recv != 3 && h.recv <= sends && nondetBool("receiveBeforeCloseRequest") { // sends >= 1: the request side must be started first (property precondition)
		receiveFirst = true
		// (only when the handler reads everything the client sends: otherwise
		// the surplus Sends block for ever by design of such a transport)
		if h.recv == sends {
			tr.keepRequestOpen = nondetBool("transportKeepsRequestOpen")
		}
	}
	client := NewClient[[]byte, []byte](tr, stackURL, stackClientOptions(proto)...)
	stream := client.CallBidiStream(context.Background())
	sendErrs := 0
	for i := 0; i < sends; i++ {
		m := []byte{byte(i)}
		err := stream.Send(&m)
		if err != nil {
			sendErrs++
			check(errors.Is(err, io.EOF), "a Send that fails after the handler finished wraps io.EOF")
		}
	}
	if !receiveFirst {
		check(stream.CloseRequest() == nil, "closing the request side succeeds")
	}
	got := 0
	var rerr error
	for {
		m, err := stream.Receive()
		if err != nil {
			rerr = err
			break
		}
		check(len(*m) == 1 && (*m)[0] == byte(0x40+got), "responses arrive intact and in order")
		got++
		if got > h.send+1 {
			check(false, "the receive loop terminates")
			return
		}
	}
	check(h.done, "the handler has finished when the response ends")
	// outcome of the handler
	if h.fail {
		check(CodeOf(rerr) == CodeAborted, "Receive reports the handler's actual outcome (its error)")
	} else {
		check(errors.Is(rerr, io.EOF), "Receive reports the handler's actual outcome (clean end)")
		check(got == h.send, "every response message is delivered")
	}
	if sendErrs > 0 {
		check(h.recv != 3 && h.gotMsgs <= sends, "Sends only fail when the handler stopped reading early")
	}
	if h.recv == 3 {
		check(h.sawEOF && h.gotMsgs == sends, "the handler sees every message and then end-of-request once the client closes its side")
	}
	// once Receive has reported an error it keeps reporting one
	_, again := stream.Receive()
	check(again != nil, "once Receive has reported an error it keeps reporting one")
	// further Sends fail instead of blocking
	m := []byte{9}
	lateErr := stream.Send(&m)
	check(lateErr != nil && errors.Is(lateErr, io.EOF), "a Send after the call finished fails with an error wrapping io.EOF instead of blocking")
	if receiveFirst {
		check(stream.CloseRequest() == nil, "closing the request side succeeds")
	}
	check(stream.CloseResponse() == nil, "closing the response side succeeds")
	check(closes >= 1, "the HTTP response body has been closed")
	check(verifQuiesce() == 0, "no goroutine started by the library remains")
}

// HarnessC14Sequences: deterministic schedule (a goroutine runs until it blocks).
//
//verif:harness property=C14 stubs=json,wire shard=proto:3
func HarnessC14Sequences() {
	c14Run(nondetChoice("proto", 3), false)
}

// HarnessC14Interleavings: the same programs with the scheduler exploring
// preemptions at the library's synchronisation points (channel, mutex,
// sync.Once, sync.Pool, pipe operations); a state in which every goroutine is
// blocked is reported as a deadlock.
//
//verif:harness property=C14 stubs=json,wire sched=explore preempt=2 preemptT=2 shard=proto:3
func HarnessC14Interleavings() {
	c14Run(nondetChoice("proto", 3), true)
}

// HarnessC14CancelledCall: a client that finishes by cancelling: the context
// is done from a symbolic (early) poll on; Send, Receive, CloseRequest and
// CloseResponse must all return, and no library goroutine may remain.
//
//verif:harness property=C14 stubs=json,wire shard=proto:3
func HarnessC14CancelledCall() {
	proto := nondetChoice("proto", 3)
	ctx := &pollCtx{kind: nondetChoice("kind", 2)}
	ctx.at = nondetInt("at")
	assume(ctx.at >= 0 && ctx.at <= 2)
	h := &c14Handler{recv: 3, send: 1}
	handler := NewBidiStreamHandler("/pkg.Svc/Method", h.run, stackHandlerOptions()...)
	closes := 0
	tr := &c15Transport{inner: &stackTransport{handler: handler, bodyCloses: &closes}, ctx: ctx}
	client := NewClient[[]byte, []byte](tr, stackURL, stackClientOptions(proto)...)
	stream := client.CallBidiStream(ctx)
	m := []byte{1}
	serr := stream.Send(&m)
	if serr == nil {
		// (half-duplex transport model: see HarnessC15Client)
		_ = stream.CloseRequest()
	}
	n := 0
	for {
		_, err := stream.Receive()
		if err != nil {
			break
		}
		n++
		if n > 2 {
			check(false, "the receive loop terminates")
			return
		}
	}
	_ = stream.CloseRequest()
	_ = stream.CloseResponse()
	reach("all operations of a cancelled call returned")
	check(verifQuiesce() == 0, "no goroutine started by the library remains after a cancelled call")
}
