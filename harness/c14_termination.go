package connect

import (
	"context"
	"errors"
	"io"
	"net/http"
)

// C14 - every call terminates and releases what it acquired.
// The transport model is half duplex: the handler runs on the request
// goroutine started by the library and the response becomes visible when it
// returns (as with HTTP/1.1); request bytes flow through the real io.Pipe.

type c14Handler struct {
	recv    int  // messages to receive before answering; 3 = drain until end-of-request
	send    int  // messages to send
	fail    bool // return an error at the end
	sawEOF  bool
	gotMsgs int
	done    bool
}

func (h *c14Handler) run(ctx context.Context, s *BidiStream[[]byte, []byte]) error {
	defer func() { h.done = true }()
	for h.recv == 3 || h.gotMsgs < h.recv {
		_, err := s.Receive()
		if err != nil {
			if errors.Is(err, io.EOF) {
				h.sawEOF = true
				break
			}
			return err
		}
		h.gotMsgs++
	}
	for i := 0; i < h.send; i++ {
		out := []byte{byte(0x40 + i)}
		if err := s.Send(&out); err != nil {
			return err
		}
	}
	if h.fail {
		return NewError(CodeAborted, errors.New("handler failed"))
	}
	return nil
}

func c14Run(proto int, explore bool, duplex ...bool) {
	full := len(duplex) > 0 && duplex[0]
	h := &c14Handler{recv: nondetChoice("handlerRecv", 4), send: nondetChoice("handlerSend", 3), fail: nondetBool("handlerFail")}
	maxSends := bound("clientSends", 3, 4)
	if explore {
		maxSends = bound("clientSendsInterleaved", 2, 3)
	}
	sends := nondetChoice("clientSends", maxSends)
	handler := NewBidiStreamHandler("/pkg.Svc/Method", h.run, stackHandlerOptions()...)
	closes := 0
	tr := &stackTransport{handler: handler, bodyCloses: &closes}
	var httpClient HTTPClient = tr
	if full {
		// HTTP/2-like transport: the handler runs concurrently with the client
		httpClient = &duplexTransport{handler: handler, bodyCloses: &closes}
	}
	// second program shape: the client reads the response to its end before
	// closing its request side (possible when the handler does not wait for
	// end-of-request); with a transport that does not close the request body
	// for us, only the library's own bookkeeping can make a late Send fail.
	receiveFirst := false
	if sends >= 1 && h.recv != 3 && h.recv <= sends && nondetBool("receiveBeforeCloseRequest") { // sends >= 1: the request side must be started first (property precondition)
		receiveFirst = true
		// (only when the handler reads everything the client sends: otherwise
		// the surplus Sends block for ever by design of such a transport)
		if h.recv == sends && !full {
			tr.keepRequestOpen = nondetBool("transportKeepsRequestOpen")
		}
	}
	client := NewClient[[]byte, []byte](httpClient, stackURL, stackClientOptions(proto)...)
	stream := client.CallBidiStream(context.Background())
	sendErrs := 0
	for i := 0; i < sends; i++ {
		m := []byte{byte(i)}
		err := stream.Send(&m)
		if err != nil {
			sendErrs++
			check(errors.Is(err, io.EOF), "a Send that fails after the handler finished wraps io.EOF")
		}
	}
	if !receiveFirst {
		check(stream.CloseRequest() == nil, "closing the request side succeeds")
	}
	got := 0
	var rerr error
	for {
		m, err := stream.Receive()
		if err != nil {
			rerr = err
			break
		}
		check(len(*m) == 1 && (*m)[0] == byte(0x40+got), "responses arrive intact and in order")
		got++
		if got > h.send+1 {
			check(false, "the receive loop terminates")
			return
		}
	}
	check(h.done, "the handler has finished when the response ends")
	// outcome of the handler
	if h.fail {
		check(CodeOf(rerr) == CodeAborted, "Receive reports the handler's actual outcome (its error)")
	} else {
		check(errors.Is(rerr, io.EOF), "Receive reports the handler's actual outcome (clean end)")
		check(got == h.send, "every response message is delivered")
	}
	if sendErrs > 0 {
		check(h.recv != 3 && h.gotMsgs <= sends, "Sends only fail when the handler stopped reading early")
	}
	if h.recv == 3 {
		check(h.sawEOF && h.gotMsgs == sends, "the handler sees every message and then end-of-request once the client closes its side")
	}
	// once Receive has reported an error it keeps reporting one; further
	// Sends fail instead of blocking - in either order (a second Receive must
	// not be what makes the late Send fail)
	lateSendFirst := !explore && nondetBool("lateSendBeforeSecondReceive") // (deterministic-schedule harness only: keeps the explored ones affordable)
	if !lateSendFirst {
		_, again := stream.Receive()
		check(again != nil, "once Receive has reported an error it keeps reporting one")
	}
	m := []byte{9}
	lateErr := stream.Send(&m)
	check(lateErr != nil && errors.Is(lateErr, io.EOF), "a Send after the call finished fails with an error wrapping io.EOF instead of blocking")
	if lateSendFirst {
		_, again := stream.Receive()
		check(again != nil, "once Receive has reported an error it keeps reporting one")
	}
	if receiveFirst {
		check(stream.CloseRequest() == nil, "closing the request side succeeds")
	}
	check(stream.CloseResponse() == nil, "closing the response side succeeds")
	check(closes >= 1, "the HTTP response body has been closed")
	check(verifQuiesce() == 0, "no goroutine started by the library remains")
}

// HarnessC14Sequences: deterministic schedule (a goroutine runs until it blocks).
//
//verif:harness property=C14 stubs=json,wire shard=proto:3 race=on
func HarnessC14Sequences() {
	c14Run(nondetChoice("proto", 3), false)
}

// HarnessC14Interleavings: the same programs with the scheduler exploring
// preemptions at the library's synchronisation points (channel, mutex,
// sync.Once, sync.Pool, pipe operations); a state in which every goroutine is
// blocked is reported as a deadlock.
//
//verif:harness property=C14 stubs=json,wire sched=explore preempt=2 preemptT=2 shard=proto:3 race=on
func HarnessC14Interleavings() {
	c14Run(nondetChoice("proto", 3), true)
}

// HarnessC14CancelledCall: a client that finishes by cancelling: the context
// is done from a symbolic (early) poll on; Send, Receive, CloseRequest and
// CloseResponse must all return, and no library goroutine may remain.
//
//verif:harness property=C14 stubs=json,wire shard=proto:3 race=on
func HarnessC14CancelledCall() {
	proto := nondetChoice("proto", 3)
	ctx := &pollCtx{kind: nondetChoice("kind", 2)}
	ctx.at = nondetInt("at")
	assume(ctx.at >= 0 && ctx.at <= 2)
	h := &c14Handler{recv: 3, send: 1}
	handler := NewBidiStreamHandler("/pkg.Svc/Method", h.run, stackHandlerOptions()...)
	closes := 0
	inner := &stackTransport{handler: handler, bodyCloses: &closes}
	var tr HTTPClient = &c15Transport{inner: inner, ctx: ctx}
	if nondetBool("transportIgnoresCancellation") {
		// a transport that still delivers the response of a round trip that
		// was in flight when the context became done
		tr = inner
	}
	client := NewClient[[]byte, []byte](tr, stackURL, stackClientOptions(proto)...)
	stream := client.CallBidiStream(ctx)
	m := []byte{1}
	serr := stream.Send(&m)
	if serr == nil {
		// (half-duplex transport model: see HarnessC15Client)
		_ = stream.CloseRequest()
	}
	n := 0
	for {
		_, err := stream.Receive()
		if err != nil {
			break
		}
		n++
		if n > 2 {
			check(false, "the receive loop terminates")
			return
		}
	}
	_ = stream.CloseRequest()
	_ = stream.CloseResponse()
	reach("all operations of a cancelled call returned")
	check(verifQuiesce() == 0, "no goroutine started by the library remains after a cancelled call")
	if inner.served > 0 && tr == HTTPClient(inner) {
		check(closes >= 1, "the body of a response that arrived for a cancelled call has been closed")
	}
}

// faultCodec is the stack codec with injectable failures for application
// messages (the status message of the gRPC protocols is never failed).
type faultCodec struct {
	stackCodec
	failMarshal, failUnmarshal bool
}

func (c *faultCodec) Marshal(m any) ([]byte, error) {
	if _, ok := m.(*[]byte); ok && c.failMarshal {
		return nil, errors.New("codec: cannot marshal")
	}
	return c.stackCodec.Marshal(m)
}

func (c *faultCodec) Unmarshal(data []byte, m any) error {
	if _, ok := m.(*[]byte); ok && c.failUnmarshal {
		return errors.New("codec: cannot unmarshal")
	}
	return c.stackCodec.Unmarshal(data, m)
}

type failCompressor struct{ xorCompressor }

func (c *failCompressor) Write(p []byte) (int, error) { return 0, errors.New("compressor: cannot write") }

// HarnessC14ClientSideFailures: calls that fail on the client before or
// after the exchange - the request cannot be marshalled, cannot be
// compressed, or the response cannot be unmarshalled - through the generated
// call shapes (unary, server stream, client stream).  Every call returns (a
// state in which all goroutines are blocked is a deadlock), reports an error,
// leaves no goroutine behind, and closes the response body it obtained.
//
//verif:harness property=C14 stubs=json,wire shard=proto:3 race=on
func HarnessC14ClientSideFailures() {
	proto := nondetChoice("proto", 3)
	shape := nondetChoice("shape", 3) // 0 unary, 1 server stream, 2 client stream
	fault := nondetChoice("fault", 4) // 0 none, 1 marshal, 2 compress, 3 unmarshal
	hopts := stackHandlerOptions(c08XorHandler("gzip"))
	var handler *Handler
	switch shape {
	case 0:
		handler = NewUnaryHandler("/pkg.Svc/Method", func(ctx context.Context, req *Request[[]byte]) (*Response[[]byte], error) {
			out := append([]byte{}, *req.Msg...)
			return NewResponse(&out), nil
		}, hopts...)
	case 1:
		handler = NewServerStreamHandler("/pkg.Svc/Method", func(ctx context.Context, req *Request[[]byte], s *ServerStream[[]byte]) error {
			out := append([]byte{}, *req.Msg...)
			return s.Send(&out)
		}, hopts...)
	default:
		handler = NewClientStreamHandler("/pkg.Svc/Method", func(ctx context.Context, s *ClientStream[[]byte]) (*Response[[]byte], error) {
			var out []byte
			for s.Receive() {
				out = append(out, *s.Msg()...)
			}
			if err := s.Err(); err != nil {
				return nil, err
			}
			return NewResponse(&out), nil
		}, hopts...)
	}
	closes := 0
	tr := &stackTransport{handler: handler, bodyCloses: &closes}
	codec := &faultCodec{failMarshal: fault == 1, failUnmarshal: fault == 3}
	copts := []ClientOption{WithCodec(codec), WithCompressMinBytes(1 << 20)}
	if fault == 2 {
		copts = []ClientOption{WithCodec(codec), WithCompressMinBytes(0),
			WithAcceptCompression("gzip", func() Decompressor { return &xorDecompressor{} }, func() Compressor { return &failCompressor{} }),
			WithSendCompression("gzip")}
	}
	switch proto {
	case 1:
		copts = append(copts, WithGRPC())
	case 2:
		copts = append(copts, WithGRPCWeb())
	}
	client := NewClient[[]byte, []byte](tr, stackURL, copts...)
	in := []byte{7}
	var got []byte
	var err error
	switch shape {
	case 0:
		var res *Response[[]byte]
		res, err = client.CallUnary(context.Background(), NewRequest(&in))
		if err == nil {
			got = *res.Msg
		}
	case 1:
		var stream *ServerStreamForClient[[]byte]
		stream, err = client.CallServerStream(context.Background(), NewRequest(&in))
		if err == nil {
			n := 0
			for stream.Receive() {
				got = append(got, *stream.Msg()...)
				n++
				if n > 2 {
					check(false, "the receive loop terminates")
					break
				}
			}
			err = stream.Err()
			cerr := stream.Close()
			if err == nil {
				err = cerr
			}
		}
	default:
		stream := client.CallClientStream(context.Background())
		serr := stream.Send(&in)
		var res *Response[[]byte]
		res, err = stream.CloseAndReceive()
		if err == nil {
			got = *res.Msg
		}
		if serr != nil {
			// the failure was reported by Send; what CloseAndReceive then
			// returns is not constrained by the property
			check(!errors.Is(serr, io.EOF), "a Send that failed on the client reports that failure, not end-of-stream")
			err = serr
		}
	}
	if fault == 0 {
		check(err == nil && bytesEq(got, in), "without an injected failure the call succeeds")
	} else {
		check(err != nil, "a call that failed on the client reports an error")
		if err != nil {
			ce, ok := asError(err)
			check(ok && ce.Code() != 0, "the error of a call that failed on the client is coded")
		}
	}
	if tr.served > 0 {
		check(closes >= 1, "the HTTP response body has been closed")
	}
	check(verifQuiesce() == 0, "no goroutine started by the library remains")
}

// HarnessC14FullDuplex: the same program families over the full-duplex
// (HTTP/2-like) transport of duplex.go: the handler runs concurrently with
// the client's Sends, so "the handler finished while the client is still
// sending" and "the client receives before it closes its side" are real
// interleavings, explored by the scheduler with the happens-before monitor on.
//
//verif:harness property=C14 stubs=json,wire sched=explore preempt=1 preemptT=1 shard=proto:3 race=on
func HarnessC14FullDuplex() {
	c14Run(nondetChoice("proto", 3), true, true)
}

// HarnessC14PingPong: the bidi usage only a full-duplex transport allows: k
// rounds of Send then Receive against an echoing handler, then CloseRequest
// and a final Receive that must report the clean end; or the handler stops
// echoing after `stop` rounds (returning nil or an error) while the client
// keeps going: the client's next Receive reports that outcome, later Sends
// fail with an error wrapping io.EOF rather than block, and nothing is left
// behind.
//
//verif:harness property=C14 stubs=json,wire sched=explore preempt=1 preemptT=2 shard=proto:3 race=on
func HarnessC14PingPong() {
	proto := nondetChoice("proto", 3)
	rounds := 1 + nondetChoice("rounds", bound("pingPongRounds", 2, 3))
	stop := nondetChoice("handlerStopsAfter", 4) // 3 = never
	fail := nondetBool("handlerFail")
	echoed := 0
	sawEOF := false
	handler := NewBidiStreamHandler("/pkg.Svc/Method", func(ctx context.Context, s *BidiStream[[]byte, []byte]) error {
		for stop == 3 || echoed < stop {
			m, err := s.Receive()
			if err != nil {
				if errors.Is(err, io.EOF) {
					sawEOF = true
					return nil
				}
				return err
			}
			out := []byte{(*m)[0] + 1}
			if err := s.Send(&out); err != nil {
				return err
			}
			echoed++
		}
		if fail {
			return NewError(CodeAborted, errors.New("handler failed"))
		}
		return nil
	}, stackHandlerOptions()...)
	closes := 0
	client := NewClient[[]byte, []byte](&duplexTransport{handler: handler, bodyCloses: &closes}, stackURL, stackClientOptions(proto)...)
	stream := client.CallBidiStream(context.Background())
	var rerr error
	got := 0
	for i := 0; i < rounds && rerr == nil; i++ {
		m := []byte{byte(0x10 + i)}
		if err := stream.Send(&m); err != nil {
			check(errors.Is(err, io.EOF), "a Send that fails after the handler finished wraps io.EOF")
			check(stop != 3 && i >= stop, "Sends only fail once the handler has stopped reading")
		}
		r, err := stream.Receive()
		if err != nil {
			rerr = err
			break
		}
		check(len(*r) == 1 && (*r)[0] == byte(0x11+i), "each echo answers the message just sent")
		got++
	}
	check(stream.CloseRequest() == nil, "closing the request side succeeds")
	for rerr == nil {
		_, err := stream.Receive()
		if err != nil {
			rerr = err
			break
		}
		got++
		if got > rounds+1 {
			check(false, "the receive loop terminates")
			return
		}
	}
	early := stop != 3 && stop < rounds
	switch {
	case early && fail:
		check(CodeOf(rerr) == CodeAborted, "Receive reports the handler's actual outcome (its error)")
	case stop != 3 && stop <= rounds && fail:
		check(CodeOf(rerr) == CodeAborted, "Receive reports the handler's actual outcome (its error)")
	default:
		check(errors.Is(rerr, io.EOF), "Receive reports the handler's actual outcome (clean end)")
	}
	if stop == 3 || stop > rounds {
		check(got == rounds && sawEOF, "every round is echoed and the handler sees end-of-request once the client closes its side")
	} else {
		check(got == stop, "exactly the echoes the handler produced are delivered")
	}
	_, again := stream.Receive()
	check(again != nil, "once Receive has reported an error it keeps reporting one")
	m := []byte{9}
	lateErr := stream.Send(&m)
	check(lateErr != nil && errors.Is(lateErr, io.EOF), "a Send after the call finished fails with an error wrapping io.EOF instead of blocking")
	check(stream.CloseResponse() == nil, "closing the response side succeeds")
	check(closes >= 1, "the HTTP response body has been closed")
	check(verifQuiesce() == 0, "no goroutine started by the library remains")
}

// HarnessC14CloseWithUnreadData: a client that stops reading a large
// response and closes it: more than the library is willing to drain (4 MiB)
// is still unread.  Closing must still release the HTTP response body - the
// transport then tears the stream down - and return.
//
//verif:harness property=C14 stubs=json,wire shard=proto:3 maxsteps=4000000
func HarnessC14CloseWithUnreadData() {
	proto := nondetChoice("proto", 3)
	big := make([]byte, discardLimit+64)
	body := append(refFrame(0, []byte{7}), refFrame(0, big)...)
	header := http.Header{"Content-Type": {[]string{"application/connect+proto", "application/grpc+proto", "application/grpc-web+proto"}[proto]}}
	closes := 0
	resp := &http.Response{StatusCode: 200, Status: "200 OK", ProtoMajor: 2, Header: header, Trailer: http.Header{}, Body: &countingBody{Reader: &wholeReader{data: body}, closes: &closes}}
	client := NewClient[[]byte, []byte](&cannedTransport{resp: resp}, stackURL, stackClientOptions(proto)...)
	in := []byte{1}
	stream, err := client.CallServerStream(context.Background(), NewRequest(&in))
	check(err == nil, "starting the stream succeeds")
	if err != nil {
		return
	}
	check(stream.Receive(), "the first message arrives")
	_ = stream.Close()
	check(closes >= 1, "closing a response with a lot of unread data still closes the HTTP response body")
	check(verifQuiesce() == 0, "no goroutine started by the library remains")
}
