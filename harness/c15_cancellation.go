package connect

import (
	"context"
	"errors"
	"io"
	"net/http"
	"time"
)

// C15 - cancellation and expiry surface as canceled / deadline_exceeded everywhere.

// pollCtx: Err() is nil for the first `at` polls and then the chosen context
// error for ever (monotone).  Every ctx.Err() call in the library or in the
// transport stub is a poll, so `at` ranges over every cancellation instant
// relative to the progress of the call.
type pollCtx struct {
	at    int
	polls int
	kind  int // 0 canceled, 1 deadline exceeded
	// done is closed as soon as a poll has observed the cancellation, so that
	// code selecting on Done() sees the same instant as code polling Err()
	done       chan struct{}
	doneClosed bool
}

func (c *pollCtx) cancelled() bool { return c.polls > c.at }

func (c *pollCtx) closeDone() {
	if c.done != nil && !c.doneClosed {
		c.doneClosed = true
		close(c.done)
	}
}

func (c *pollCtx) Err() error {
	c.polls++
	if c.polls > c.at {
		c.closeDone()
		if c.kind == 0 {
			return context.Canceled
		}
		return context.DeadlineExceeded
	}
	return nil
}
func (c *pollCtx) Deadline() (time.Time, bool) { return time.Time{}, false }
func (c *pollCtx) Done() <-chan struct{} {
	if c.done == nil {
		c.done = make(chan struct{})
	}
	if c.cancelled() {
		c.closeDone()
	}
	return c.done
}
func (c *pollCtx) Value(any) any                 { return nil }

func (c *pollCtx) wantCode() Code {
	if c.kind == 0 {
		return CodeCanceled
	}
	return CodeDeadlineExceeded
}

// ctxBody: a response body that fails with the bare context error once the
// context is done, as net/http's bodies do.
type ctxBody struct {
	r   io.Reader
	ctx *pollCtx
	// firstChunk > 0: the first Read delivers at most that many bytes (the
	// transport split the first envelope prefix), so that the cancellation
	// instant can fall inside a partially delivered prefix.
	firstChunk int
	reads      int
}

func (b *ctxBody) Read(p []byte) (int, error) {
	if err := b.ctx.Err(); err != nil {
		return 0, err
	}
	b.reads++
	if b.reads == 1 && b.firstChunk > 0 && len(p) > b.firstChunk {
		p = p[:b.firstChunk]
	}
	return b.r.Read(p)
}
func (b *ctxBody) Close() error { return nil }

// c15Transport serves the request with the real handler; once the context is
// done, Do fails with the context error (optionally wrapped as net/http does)
// and response bodies fail with it.
type c15Transport struct {
	inner      *stackTransport
	ctx        *pollCtx
	wrap       bool
	firstChunk int
}

type c15URLError struct{ err error }

func (e *c15URLError) Error() string { return "Post \"http://h.test\": " + e.err.Error() }
func (e *c15URLError) Unwrap() error { return e.err }

func (t *c15Transport) Do(req *http.Request) (*http.Response, error) {
	resp, err := t.inner.Do(req)
	if cerr := t.ctx.Err(); cerr != nil {
		if t.wrap {
			return nil, &c15URLError{cerr}
		}
		return nil, cerr
	}
	if err != nil {
		return nil, err
	}
	resp.Body = &ctxBody{r: resp.Body, ctx: t.ctx, firstChunk: t.firstChunk}
	return resp, nil
}

// c15Check: an operation that failed while the context was done must carry the context's code.
func c15Check(ctx *pollCtx, err error, op string, eofOK bool) {
	if err == nil || !ctx.cancelled() {
		return
	}
	if eofOK && errors.Is(err, io.EOF) {
		return // a Send interrupted by the closed stream: Receive reports the cause
	}
	check(CodeOf(err) == ctx.wantCode(), op+" fails with the context's code once the context is done")
}

// HarnessC15Client: a symbolic cancellation instant against unary,
// server-stream and client-stream calls of the three protocols.
//
//verif:harness property=C15 stubs=json,wire shard=proto:3 race=on
func HarnessC15Client() {
	proto := nondetChoice("proto", 3)
	call := nondetChoice("call", 4)
	ctx := &pollCtx{kind: nondetChoice("kind", 2)}
	ctx.at = nondetInt("at")
	assume(ctx.at >= 0 && ctx.at <= bound("polls", 8, 12))
	var handler *Handler
	switch call {
	case 0:
		handler = NewUnaryHandler("/pkg.Svc/Method", c16EchoUnary(), stackHandlerOptions()...)
	case 1:
		handler = NewServerStreamHandler("/pkg.Svc/Method", func(c context.Context, req *Request[[]byte], s *ServerStream[[]byte]) error {
			for i := 0; i < 2; i++ {
				if err := s.Send(req.Msg); err != nil {
					return err
				}
			}
			return nil
		}, stackHandlerOptions()...)
	case 3:
		handler = NewBidiStreamHandler("/pkg.Svc/Method", func(c context.Context, s *BidiStream[[]byte, []byte]) error {
			for {
				m, err := s.Receive()
				if err != nil {
					if errors.Is(err, io.EOF) {
						return nil
					}
					return err
				}
				if err := s.Send(m); err != nil {
					return err
				}
			}
		}, stackHandlerOptions()...)
	default:
		handler = NewClientStreamHandler("/pkg.Svc/Method", func(c context.Context, s *ClientStream[[]byte]) (*Response[[]byte], error) {
			n := byte(0)
			for s.Receive() {
				n++
			}
			out := []byte{n}
			return NewResponse(&out), s.Err()
		}, stackHandlerOptions()...)
	}
	tr := &c15Transport{inner: &stackTransport{handler: handler}, ctx: ctx, wrap: nondetBool("wrapped"), firstChunk: nondetChoice("firstChunk", 5)}
	client := NewClient[[]byte, []byte](tr, stackURL, stackClientOptions(proto)...)
	in := []byte{7}
	switch call {
	case 0:
		res, err := client.CallUnary(ctx, NewRequest(&in))
		c15Check(ctx, err, "CallUnary", false)
		if err == nil {
			check(res != nil && bytesEq(*res.Msg, in), "a call that succeeds delivers the real response")
		}
	case 1:
		stream, err := client.CallServerStream(ctx, NewRequest(&in))
		c15Check(ctx, err, "CallServerStream", false)
		if err != nil {
			return
		}
		n := 0
		for stream.Receive() {
			check(bytesEq(*stream.Msg(), in), "received messages are real ones")
			n++
			if n > 3 {
				check(false, "the receive loop terminates")
				return
			}
		}
		c15Check(ctx, stream.Err(), "Receive", false)
		if stream.Err() == nil {
			check(n == 2, "a stream that ends cleanly delivered every message")
		}
		c15Check(ctx, stream.Close(), "Close", false)
	case 3:
		// bidi, driven by hand: the response side is used without closing the
		// request side first (the request side was started by Send)
		stream := client.CallBidiStream(ctx)
		serr := stream.Send(&in)
		c15Check(ctx, serr, "Send", true)
		closedEarly := false
		if serr == nil {
			// the transport model is half duplex: with the request still open
			// and the handler waiting for more, Receive could only return
			// through net/http's own cancellation, which is outside the model
			c15Check(ctx, stream.CloseRequest(), "CloseRequest", true)
			closedEarly = true
		}
		n := 0
		for {
			_, err := stream.Receive()
			if err != nil {
				if !(serr == nil && errors.Is(err, io.EOF)) {
					c15Check(ctx, err, "Receive", false)
					check(!errors.Is(err, io.EOF) || !ctx.cancelled() || serr == nil, "after a Send interrupted by cancellation Receive reports the context's code")
				}
				break
			}
			n++
			// half-duplex transport: the echo arrives once the request side is closed
			if n > 2 {
				check(false, "the receive loop terminates")
				return
			}
		}
		if !closedEarly {
			c15Check(ctx, stream.CloseRequest(), "CloseRequest", true)
		}
		c15Check(ctx, stream.CloseResponse(), "CloseResponse", false)
	default:
		stream := client.CallClientStream(ctx)
		sendFailed := false
		for i := 0; i < 2; i++ {
			err := stream.Send(&in)
			c15Check(ctx, err, "Send", true)
			if err != nil {
				sendFailed = true
				break
			}
		}
		res, err := stream.CloseAndReceive()
		c15Check(ctx, err, "CloseAndReceive", false)
		if sendFailed {
			check(err != nil, "after a failed Send the call does not succeed")
		}
		if err == nil {
			check(res != nil && len(*res.Msg) == 1 && (*res.Msg)[0] == 2, "a call that succeeds delivers the real response")
		}
	}
}

// HarnessC15Handler: a handler that returns its context's error conveys that
// classification to the client.
//
//verif:harness property=C15 stubs=json,wire shard=proto:3 race=on
func HarnessC15Handler() {
	proto := nondetChoice("proto", 3)
	kind := nondetChoice("kind", 2)
	wrapped := nondetBool("wrapped")
	cerr := context.Canceled
	want := CodeCanceled
	if kind == 1 {
		cerr, want = context.DeadlineExceeded, CodeDeadlineExceeded
	}
	handler := NewUnaryHandler("/pkg.Svc/Method", func(c context.Context, req *Request[[]byte]) (*Response[[]byte], error) {
		if wrapped {
			return nil, &c15URLError{cerr}
		}
		return nil, cerr
	}, stackHandlerOptions()...)
	// a client with a small read limit: the limit is about messages, the
	// error must still be conveyed (Connect unary carries it in the body,
	// gRPC in trailers; gRPC-Web's trailer frame is itself subject to the limit)
	var extra []ClientOption
	if proto != 2 && nondetBool("clientReadLimit") {
		extra = append(extra, WithReadMaxBytes(4))
	}
	client := NewClient[[]byte, []byte](&stackTransport{handler: handler}, stackURL, stackClientOptions(proto, extra...)...)
	in := []byte{7}
	_, err := client.CallUnary(context.Background(), NewRequest(&in))
	check(err != nil && CodeOf(err) == want, "a handler returning its context's error conveys canceled / deadline_exceeded to the client")
}

// HarnessC15ExpiredBeforeHandler: the peer's timeout is already over when the
// request reaches the handler (a zero Connect-Timeout-Ms / Grpc-Timeout, or
// one that ran out while the request was queued): a unary handler's user code
// does not run and the peer is told deadline_exceeded - not canceled, not
// success; a streaming handler that returns its context's error conveys
// deadline_exceeded as well.
//
//verif:harness property=C15 stubs=json,wire,ctx shard=proto:3
func HarnessC15ExpiredBeforeHandler() {
	proto := nondetChoice("proto", 3)
	streaming := nondetBool("streaming")
	userCalls := 0
	var handler *Handler
	if streaming {
		handler = NewServerStreamHandler("/pkg.Svc/Method", func(ctx context.Context, req *Request[[]byte], s *ServerStream[[]byte]) error {
			userCalls++
			return ctx.Err()
		}, stackHandlerOptions()...)
	} else {
		handler = NewUnaryHandler("/pkg.Svc/Method", func(ctx context.Context, req *Request[[]byte]) (*Response[[]byte], error) {
			userCalls++
			out := []byte{1}
			return NewResponse(&out), nil
		}, stackHandlerOptions()...)
	}
	unaryConnect := proto == 0 && !streaming
	ct := []string{"application/connect+proto", "application/grpc+proto", "application/grpc-web+proto"}[proto]
	body := refFrame(0, []byte{0x41})
	if unaryConnect {
		ct, body = "application/proto", []byte{0x41}
	}
	header := http.Header{"Content-Type": {ct}}
	if proto == 0 {
		header.Set("Connect-Timeout-Ms", "0")
	} else {
		header.Set("Grpc-Timeout", "0"+string([]byte{"numSMH"[nondetChoice("unit", 6)]}))
	}
	rec := newRecWriter()
	req := &http.Request{Method: "POST", ProtoMajor: 2, Header: header, Body: &faultReader{data: body, cut: len(body)}}
	handler.ServeHTTP(rec, req)
	status, rh, rt, rbody := rec.finish()
	code, wellFormed := c07ResponseCode(proto, unaryConnect, status, rh, rt, rbody)
	check(wellFormed, "the response is well-formed")
	check(code == int(CodeDeadlineExceeded), "a call whose deadline has passed before the handler runs is answered with deadline_exceeded")
	if !streaming {
		check(userCalls == 0, "a unary implementation does not run once its deadline has passed")
	}
}
