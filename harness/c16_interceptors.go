package connect

import (
	"context"
	"net/http"
)

// C16 - interceptors nest in declaration order however options are grouped.

var c16Log []int // +id = request/outgoing phase, -id = response/incoming phase

type c16Interceptor struct{ id int }

func (i *c16Interceptor) WrapUnary(next UnaryFunc) UnaryFunc {
	return func(ctx context.Context, req AnyRequest) (AnyResponse, error) {
		c16Log = append(c16Log, i.id)
		res, err := next(ctx, req)
		c16Log = append(c16Log, -i.id)
		return res, err
	}
}

type c16ClientConn struct {
	StreamingClientConn
	id int
}

func (c *c16ClientConn) Send(m any) error {
	c16Log = append(c16Log, c.id)
	return c.StreamingClientConn.Send(m)
}

func (c *c16ClientConn) Receive(m any) error {
	err := c.StreamingClientConn.Receive(m)
	c16Log = append(c16Log, -c.id)
	return err
}

func (i *c16Interceptor) WrapStreamingClient(next StreamingClientFunc) StreamingClientFunc {
	return func(ctx context.Context, spec Spec) StreamingClientConn {
		return &c16ClientConn{StreamingClientConn: next(ctx, spec), id: i.id}
	}
}

type c16HandlerConn struct {
	StreamingHandlerConn
	id int
}

// On a handler the first interceptor is closest to the wire: it is the first
// to see an incoming message (i.e. when the inner Receive has returned) and
// the last to see an outgoing one.
func (c *c16HandlerConn) Receive(m any) error {
	err := c.StreamingHandlerConn.Receive(m)
	c16Log = append(c16Log, c.id)
	return err
}

func (c *c16HandlerConn) Send(m any) error {
	c16Log = append(c16Log, -c.id)
	return c.StreamingHandlerConn.Send(m)
}

func (i *c16Interceptor) WrapStreamingHandler(next StreamingHandlerFunc) StreamingHandlerFunc {
	return func(ctx context.Context, conn StreamingHandlerConn) error {
		return next(ctx, &c16HandlerConn{StreamingHandlerConn: conn, id: i.id})
	}
}

// c16Options builds the option list for interceptors 1..n: a symbolic
// nil-mask, a symbolic split into consecutive WithInterceptors groups and a
// symbolic nesting of each group inside WithOptions / WithClientOptions /
// WithHandlerOptions.  It returns the ids that must take effect, in order.
func c16Options(n int, client bool) (copts []ClientOption, hopts []HandlerOption, want []int) {
	var group []Interceptor
	flush := func() {
		if group == nil {
			return
		}
		opt := WithInterceptors(group...)
		group = nil
		switch nondetChoice("nest", 3) {
		case 0:
			copts = append(copts, opt)
			hopts = append(hopts, opt)
		case 1:
			o := WithOptions(opt)
			copts = append(copts, o)
			hopts = append(hopts, o)
		default:
			copts = append(copts, WithClientOptions(WithOptions(opt)))
			hopts = append(hopts, WithHandlerOptions(WithOptions(opt)))
		}
	}
	for id := 1; id <= n; id++ {
		if nondetBool("nil") {
			group = append(group, nil)
		} else {
			group = append(group, &c16Interceptor{id: id})
			want = append(want, id)
		}
		if id < n && nondetBool("cut") {
			flush()
		}
	}
	flush()
	return
}

func c16Expect(want []int, phases int) []int {
	var exp []int
	for p := 0; p < phases; p++ {
		for _, id := range want {
			exp = append(exp, id)
		}
		for i := len(want) - 1; i >= 0; i-- {
			exp = append(exp, -want[i])
		}
	}
	return exp
}

func intsEq(a, b []int) bool {
	if len(a) != len(b) {
		return false
	}
	for i := range a {
		if a[i] != b[i] {
			return false
		}
	}
	return true
}

func c16EchoUnary() func(context.Context, *Request[[]byte]) (*Response[[]byte], error) {
	return func(ctx context.Context, req *Request[[]byte]) (*Response[[]byte], error) {
		out := append([]byte{}, *req.Msg...)
		return NewResponse(&out), nil
	}
}

// HarnessC16ClientUnary: interceptors on a client, unary call.
//
//verif:harness property=C16 stubs=json,wire
func HarnessC16ClientUnary() {
	n := bound("interceptors", 3, 4)
	c16Log = nil
	copts, _, want := c16Options(n, true)
	handler := NewUnaryHandler("/pkg.Svc/Method", c16EchoUnary(), stackHandlerOptions()...)
	client := NewClient[[]byte, []byte](&stackTransport{handler: handler}, stackURL, stackClientOptions(0, copts...)...)
	in := []byte{7}
	res, err := client.CallUnary(context.Background(), NewRequest(&in))
	check(err == nil && res != nil && bytesEq(*res.Msg, in), "the call is unaffected by interceptors")
	check(intsEq(c16Log, c16Expect(want, 1)), "client unary interceptors nest in declaration order, each exactly once")
}

// HarnessC16HandlerUnary: interceptors on a handler, unary call.
//
//verif:harness property=C16 stubs=json,wire
func HarnessC16HandlerUnary() {
	n := bound("interceptors", 3, 4)
	c16Log = nil
	_, hopts, want := c16Options(n, false)
	handler := NewUnaryHandler("/pkg.Svc/Method", c16EchoUnary(), stackHandlerOptions(hopts...)...)
	client := NewClient[[]byte, []byte](&stackTransport{handler: handler}, stackURL, stackClientOptions(0)...)
	in := []byte{7}
	res, err := client.CallUnary(context.Background(), NewRequest(&in))
	check(err == nil && res != nil && bytesEq(*res.Msg, in), "the call is unaffected by interceptors")
	check(intsEq(c16Log, c16Expect(want, 1)), "handler unary interceptors nest in declaration order, each exactly once")
}

// HarnessC16ClientStream: streaming client interceptors (server-stream call:
// one Send, then Receive until the end).
//
//verif:harness property=C16 stubs=json,wire
func HarnessC16ClientStream() {
	n := bound("interceptors", 3, 4)
	c16Log = nil
	copts, _, want := c16Options(n, true)
	handler := NewServerStreamHandler("/pkg.Svc/Method",
		func(ctx context.Context, req *Request[[]byte], stream *ServerStream[[]byte]) error {
			return stream.Send(req.Msg)
		}, stackHandlerOptions()...)
	client := NewClient[[]byte, []byte](&stackTransport{handler: handler}, stackURL, stackClientOptions(0, copts...)...)
	in := []byte{7}
	stream, err := client.CallServerStream(context.Background(), NewRequest(&in))
	check(err == nil, "starting the stream succeeds")
	if err != nil {
		return
	}
	got := 0
	for stream.Receive() {
		got++
	}
	check(got == 1 && stream.Err() == nil, "the call is unaffected by interceptors")
	// one Send (outgoing: first interceptor first), two Receives (incoming:
	// the first interceptor sees each one last).
	var exp []int
	exp = append(exp, want...)
	for r := 0; r < 2; r++ {
		for i := len(want) - 1; i >= 0; i-- {
			exp = append(exp, -want[i])
		}
	}
	check(intsEq(c16Log, exp), "client streaming interceptors nest in declaration order, each exactly once")
	_ = stream.Close()
}

// HarnessC16HandlerStream: streaming handler interceptors (client-stream
// call: handler receives until the end, then sends one response).
//
//verif:harness property=C16 stubs=json,wire
func HarnessC16HandlerStream() {
	n := bound("interceptors", 3, 4)
	c16Log = nil
	_, hopts, want := c16Options(n, false)
	handler := NewClientStreamHandler("/pkg.Svc/Method",
		func(ctx context.Context, stream *ClientStream[[]byte]) (*Response[[]byte], error) {
			cnt := byte(0)
			for stream.Receive() {
				cnt++
			}
			out := []byte{cnt}
			return NewResponse(&out), stream.Err()
		}, stackHandlerOptions(hopts...)...)
	client := NewClient[[]byte, []byte](&stackTransport{handler: handler}, stackURL, stackClientOptions(0)...)
	stream := client.CallClientStream(context.Background())
	in := []byte{7}
	check(stream.Send(&in) == nil, "sending succeeds")
	res, err := stream.CloseAndReceive()
	check(err == nil && res != nil && len(*res.Msg) == 1 && (*res.Msg)[0] == 1, "the call is unaffected by interceptors")
	// two Receives on the handler (message, then end): incoming, first
	// interceptor outermost = first to be asked; one Send.
	var exp []int
	for r := 0; r < 2; r++ {
		exp = append(exp, want...)
	}
	for i := len(want) - 1; i >= 0; i-- {
		exp = append(exp, -want[i])
	}
	check(intsEq(c16Log, exp), "handler streaming interceptors nest in declaration order, each exactly once")
}

var _ http.Header

// HarnessC16SharedSlices: the interceptor groups are windows of ONE slice
// (WithInterceptors(list[i:j]...)) and the same option values configure two
// handlers and two clients one after the other; the options must not write
// into the caller's slice, and every construction must see the same chain.
//
//verif:harness property=C16 stubs=json,wire
func HarnessC16SharedSlices() {
	n := bound("interceptors", 4, 5)
	list := make([]Interceptor, n)
	var want []int
	for i := 0; i < n; i++ {
		list[i] = &c16Interceptor{id: i + 1}
		want = append(want, i+1)
	}
	// symbolic cut points
	var opts []Option
	start := 0
	for i := 1; i <= n; i++ {
		if i == n || nondetBool("cut") {
			opts = append(opts, WithInterceptors(list[start:i]...))
			start = i
		}
	}
	for round := 0; round < 2; round++ {
		var hopts []HandlerOption
		var copts []ClientOption
		for _, o := range opts {
			hopts = append(hopts, o)
			copts = append(copts, o)
		}
		c16Log = nil
		handler := NewUnaryHandler("/pkg.Svc/Method", c16EchoUnary(), stackHandlerOptions(hopts...)...)
		plain := NewClient[[]byte, []byte](&stackTransport{handler: handler}, stackURL, stackClientOptions(0)...)
		in := []byte{7}
		_, err := plain.CallUnary(context.Background(), NewRequest(&in))
		check(err == nil && intsEq(c16Log, c16Expect(want, 1)), "a handler built from shared option values nests the interceptors in declaration order")
		c16Log = nil
		bare := NewUnaryHandler("/pkg.Svc/Method", c16EchoUnary(), stackHandlerOptions()...)
		client := NewClient[[]byte, []byte](&stackTransport{handler: bare}, stackURL, stackClientOptions(0, copts...)...)
		_, err = client.CallUnary(context.Background(), NewRequest(&in))
		check(err == nil && intsEq(c16Log, c16Expect(want, 1)), "a client built from shared option values nests the interceptors in declaration order")
	}
	for i := 0; i < n; i++ {
		ci, ok := list[i].(*c16Interceptor)
		check(ok && ci.id == i+1, "options never modify the caller's interceptor slice")
	}
}

// c16Tree arranges the single-interceptor options ids[0..] into a symbolic
// tree of WithOptions groups: consecutive segments, each either left as
// siblings or wrapped (recursively) in one WithOptions.
func c16Tree(ids []int, depth int) []Option {
	var out []Option
	start := 0
	for i := 1; i <= len(ids); i++ {
		if i < len(ids) && !nondetBool("treeCut") {
			continue
		}
		seg := ids[start:i]
		start = i
		switch {
		case depth > 0 && len(seg) > 1 && nondetBool("treeWrap"):
			out = append(out, WithOptions(c16Tree(seg, depth-1)...))
		case len(seg) == 1 && nondetBool("leafWrap"):
			out = append(out, WithOptions(WithInterceptors(&c16Interceptor{id: seg[0]})))
		default:
			for _, id := range seg {
				out = append(out, WithInterceptors(&c16Interceptor{id: id}))
			}
		}
	}
	return out
}

// HarnessC16OptionTrees: interceptors 1..n spread over an arbitrary tree of
// nested WithOptions groups (groups with several members, followed and
// preceded by siblings) take effect in declaration order, each exactly once,
// on a handler and on a client; building the tree twice from the same values
// gives the same chain.
//
//verif:harness property=C16 stubs=json,wire
func HarnessC16OptionTrees() {
	n := bound("treeLeaves", 4, 5)
	ids := make([]int, n)
	for i := range ids {
		ids[i] = i + 1
	}
	opts := c16Tree(ids, 2)
	root := Option(WithOptions(opts...))
	if nondetBool("flatRoot") {
		root = nil
	}
	var hopts []HandlerOption
	var copts []ClientOption
	if root != nil {
		hopts, copts = []HandlerOption{root}, []ClientOption{root}
	} else {
		for _, o := range opts {
			hopts = append(hopts, o)
			copts = append(copts, o)
		}
	}
	in := []byte{7}
	c16Log = nil
	handler := NewUnaryHandler("/pkg.Svc/Method", c16EchoUnary(), stackHandlerOptions(hopts...)...)
	plain := NewClient[[]byte, []byte](&stackTransport{handler: handler}, stackURL, stackClientOptions(0)...)
	_, err := plain.CallUnary(context.Background(), NewRequest(&in))
	check(err == nil && intsEq(c16Log, c16Expect(ids, 1)), "handler interceptors declared through nested option groups nest in declaration order, each exactly once")
	c16Log = nil
	bare := NewUnaryHandler("/pkg.Svc/Method", c16EchoUnary(), stackHandlerOptions()...)
	client := NewClient[[]byte, []byte](&stackTransport{handler: bare}, stackURL, stackClientOptions(0, copts...)...)
	_, err = client.CallUnary(context.Background(), NewRequest(&in))
	check(err == nil && intsEq(c16Log, c16Expect(ids, 1)), "client interceptors declared through nested option groups nest in declaration order, each exactly once")
}
