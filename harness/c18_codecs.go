package connect

// C18 - the small wire codecs are total, lossless and header-safe.

// HarnessC18CodeRoundTrip: for every 32-bit code value c (one symbolic
// variable), UnmarshalText(MarshalText(c)) succeeds and yields c.
//
//verif:harness property=C18 ints=lia
func HarnessC18CodeRoundTrip() {
	c := Code(nondetUint32("c"))
	text, err := c.MarshalText()
	check(err == nil, "MarshalText never fails")
	var back Code
	uerr := back.UnmarshalText(text)
	check(uerr == nil, "UnmarshalText(MarshalText(c)) succeeds")
	check(back == c, "code text round-trips")
}

// HarnessC18HTTPStatus: every code maps to a 4xx/5xx status.
//
//verif:harness property=C18
func HarnessC18HTTPStatus() {
	c := Code(nondetUint32("c"))
	s := connectCodeToHTTP(c)
	check(s >= 400 && s <= 599, "connectCodeToHTTP(c) is a 4xx or 5xx status")
}

// refIsCodeText is the reference predicate for accepted code text, written
// from the property statement: one of the 16 defined names, or "code_"
// followed by a number (optional sign, at least one decimal digit).
func refIsCodeText(s []byte) bool {
	names := []string{"canceled", "unknown", "invalid_argument", "deadline_exceeded", "not_found",
		"already_exists", "permission_denied", "resource_exhausted", "failed_precondition", "aborted",
		"out_of_range", "unimplemented", "internal", "unavailable", "data_loss", "unauthenticated"}
	for _, n := range names {
		if string(s) == n {
			return true
		}
	}
	if len(s) < 6 || string(s[:5]) != "code_" {
		return false
	}
	rest := s[5:]
	if rest[0] == '+' || rest[0] == '-' {
		rest = rest[1:]
	}
	if len(rest) == 0 {
		return false
	}
	for _, c := range rest {
		if c < '0' || c > '9' {
			return false
		}
	}
	return true
}

// HarnessC18CodeTextReject: for every byte string s up to the bound,
// UnmarshalText(s) never panics and succeeds only on a defined name or
// code_<number>.
//
//verif:harness property=C18
func HarnessC18CodeTextReject() {
	s := nondetBytes("s", bound("len", 8, 12))
	var c Code
	err := c.UnmarshalText(s)
	if err == nil {
		check(refIsCodeText(s), "accepted code text is a defined name or code_<number>")
	} else {
		reach("rejected")
	}
}

// HarnessC18PercentRoundTrip: for every byte string m up to the bound,
// decode(encode(m)) == m and encode(m) is printable ASCII without a bare '%'.
//
//verif:harness property=C18
func HarnessC18PercentRoundTrip() {
	pool := newBufferPool()
	m := nondetString("m", bound("len", 3, 5))
	enc := grpcPercentEncode(pool, m)
	for i := 0; i < len(enc); i++ {
		check(enc[i] >= 0x20 && enc[i] <= 0x7e, "percent-encoded output is printable ASCII")
	}
	dec := grpcPercentDecode(pool, enc)
	check(dec == m, "percent-encoding round-trips")
}

// HarnessC18PercentDecodeTotal: the decoder accepts any input without panicking.
//
//verif:harness property=C18
func HarnessC18PercentDecodeTotal() {
	pool := newBufferPool()
	e := nondetString("e", bound("len", 5, 7))
	dec := grpcPercentDecode(pool, e)
	check(len(dec) <= 3*len(e)+3, "decoder terminates with bounded output")
}

// HarnessC18BinaryHeader: binary header values round-trip, padded and
// unpadded renderings are both accepted.
//
//verif:harness property=C18
func HarnessC18BinaryHeader() {
	b := nondetBytes("b", bound("len", 3, 5))
	enc := EncodeBinaryHeader(b)
	dec, err := DecodeBinaryHeader(enc)
	check(err == nil, "DecodeBinaryHeader(EncodeBinaryHeader(b)) succeeds")
	check(string(dec) == string(b), "binary header round-trips")
	padded := enc
	for len(padded)%4 != 0 {
		padded += "="
	}
	dec2, err2 := DecodeBinaryHeader(padded)
	check(err2 == nil, "padded rendering is accepted")
	check(string(dec2) == string(b), "padded rendering decodes to the same bytes")
}

// HarnessC18BinaryHeaderLong: binary header values of lengths straddling the
// sizes at which an implementation could switch strategy (fixed scratch
// buffers, pooled buffers): 2^k and 3*2^k, each -1/0/+1, up to 257 bytes.
// Contents: a fixed pattern with symbolic first and last bytes (a symbolic
// fill makes every base64 digit a solver term: 15 minutes).  Encode and
// decode never panic and round-trip; the text is unpadded base64.
//
//verif:harness property=C18
func HarnessC18BinaryHeaderLong() {
	lengths := []int{31, 32, 33, 47, 48, 49, 63, 64, 65, 95, 96, 97, 127, 128, 129, 191, 192, 193, 255, 256, 257}
	n := lengths[nondetChoice("length", len(lengths))]
	b := make([]byte, n)
	for i := range b {
		b[i] = byte(i*7 + 3)
	}
	b[0] = nondetByte("first")
	b[n-1] = nondetByte("last")
	enc := EncodeBinaryHeader(b)
	check(len(enc) == (n*8+5)/6, "the encoded length is that of unpadded base64")
	dec, err := DecodeBinaryHeader(enc)
	check(err == nil, "DecodeBinaryHeader(EncodeBinaryHeader(b)) succeeds for long values")
	check(err != nil || bytesEq(dec, b), "long binary header values round-trip")
}
