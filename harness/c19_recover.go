package connect

import (
	"context"
	"errors"
	"io"
	"net/http"
)

// C19 - handler panics are converted by WithRecover exactly as configured.

type c19Struct struct{ a, b int }

var errC19Value = errors.New("c19: panic value")

// c19PanicValue: the panic values of the property's quantifier.
func c19PanicValue(kind int) any {
	switch kind {
	case 0:
		return nil
	case 1:
		return errC19Value
	case 2:
		return "c19 string"
	case 3:
		return c19Struct{1, 2}
	case 5:
		return errC19Wrapped
	case 6:
		return errC19Context
	case 7:
		return errC19EOF
	}
	return http.ErrAbortHandler
}

// an error value whose chain contains io.EOF - the value the library itself
// uses for "stream ended": wrapped by the recovery function like the previous one
var errC19EOF = &c15URLError{io.EOF}

// an error value whose chain contains a context error: the recovery function
// wraps it in its own coded error, and that code is what must arrive
var errC19Context = &c15URLError{context.Canceled}

// an ordinary error value that merely wraps the abort sentinel: it is not the
// sentinel, so it must be handled like any other panic value
var errC19Wrapped = &c15URLError{http.ErrAbortHandler}

func c19Same(kind int, got any) bool {
	switch kind {
	case 0:
		return got == nil
	case 1:
		e, ok := got.(error)
		return ok && e == errC19Value
	case 2:
		s, ok := got.(string)
		return ok && s == "c19 string"
	case 3:
		v, ok := got.(c19Struct)
		return ok && v == c19Struct{1, 2}
	case 5:
		e, ok := got.(error)
		return ok && e == error(errC19Wrapped)
	case 6:
		e, ok := got.(error)
		return ok && e == error(errC19Context)
	case 7:
		e, ok := got.(error)
		return ok && e == error(errC19EOF)
	}
	e, ok := got.(error)
	return ok && e == http.ErrAbortHandler
}

// HarnessC19Recover: 4 RPC kinds x 3 protocols x panic value x panic point x
// position of the recover interceptor among two logging interceptors.
//
//verif:harness property=C19 stubs=json,wire shard=kind:4
func HarnessC19Recover() {
	kind := nondetChoice("kind", 4)     // unary, client stream, server stream, bidi
	proto := nondetChoice("proto", 3)   // connect, grpc, grpc-web
	pv := nondetChoice("value", 8)      // nil, error, string, struct, abort sentinel, error wrapping the sentinel, error wrapping a context error, error wrapping io.EOF
	point := nondetChoice("point", 3)   // 0 = before anything, 1 = after one send (streams), 2 = no panic
	pos := nondetChoice("position", 3)  // recover interceptor before / between / after two others
	if kind <= 1 && point == 1 {
		point = 0 // unary and client-stream handlers cannot send before returning
	}
	calls := 0
	var seen any
	handle := func(ctx context.Context, spec Spec, h http.Header, r any) error {
		calls++
		seen = r
		if pv == 2 {
			// a recovery function may also return its coded error wrapped in
			// another error: the code inside is what it meant
			return &c02Wrapper{prefix: "recover", err: NewError(CodeDataLoss, errors.New("recovered"))}
		}
		if pv >= 6 {
			// the usual shape of a recovery function: wrap what was recovered
			return NewError(CodeDataLoss, &c02Wrapper{prefix: "recovered", err: r.(error)})
		}
		if pv == 3 {
			// the message is the recovery function's, byte for byte - blanks at
			// its ends included (fmt.Errorf("panic: %v", "") ends in one)
			return NewError(CodeDataLoss, errors.New("recovered: "))
		}
		return NewError(CodeDataLoss, errors.New("recovered"))
	}
	c16Log = nil
	var opts []HandlerOption
	others := []HandlerOption{WithInterceptors(&c16Interceptor{id: 1}), WithInterceptors(&c16Interceptor{id: 2})}
	switch pos {
	case 0:
		opts = []HandlerOption{WithRecover(handle), others[0], others[1]}
	case 1:
		opts = []HandlerOption{others[0], WithRecover(handle), others[1]}
	default:
		opts = []HandlerOption{others[0], others[1], WithRecover(handle)}
	}
	opts = stackHandlerOptions(opts...)
	// optionally a first, non-panicking call goes through the same handler
	// before the call under test (the interceptor must not remember it)
	warmup := nondetBool("warmup")
	callNo := 0
	if !warmup {
		callNo = 1
	}
	maybePanic := func(at int) {
		if callNo == 1 && point == at {
			panic(c19PanicValue(pv))
		}
	}
	var handler *Handler
	switch kind {
	case 0:
		handler = NewUnaryHandler("/pkg.Svc/Method", func(ctx context.Context, req *Request[[]byte]) (*Response[[]byte], error) {
			maybePanic(0)
			out := []byte{9}
			return NewResponse(&out), nil
		}, opts...)
	case 1:
		handler = NewClientStreamHandler("/pkg.Svc/Method", func(ctx context.Context, s *ClientStream[[]byte]) (*Response[[]byte], error) {
			maybePanic(0)
			for s.Receive() {
			}
			out := []byte{9}
			return NewResponse(&out), nil
		}, opts...)
	case 2:
		handler = NewServerStreamHandler("/pkg.Svc/Method", func(ctx context.Context, req *Request[[]byte], s *ServerStream[[]byte]) error {
			maybePanic(0)
			out := []byte{9}
			if err := s.Send(&out); err != nil {
				return err
			}
			maybePanic(1)
			return nil
		}, opts...)
	default:
		handler = NewBidiStreamHandler("/pkg.Svc/Method", func(ctx context.Context, s *BidiStream[[]byte, []byte]) error {
			maybePanic(0)
			out := []byte{9}
			if err := s.Send(&out); err != nil {
				return err
			}
			maybePanic(1)
			return nil
		}, opts...)
	}
	tr := &stackTransport{handler: handler, catchPanic: true}
	client := NewClient[[]byte, []byte](tr, stackURL, stackClientOptions(proto)...)
	in := []byte{1}
	var callErr error
	got := 0
	if warmup {
		// same kind of call, no panic (callNo == 0)
		switch kind {
		case 0:
			_, _ = client.CallUnary(context.Background(), NewRequest(&in))
		case 1:
			cs := client.CallClientStream(context.Background())
			_ = cs.Send(&in)
			_, _ = cs.CloseAndReceive()
		case 2:
			if ss, err := client.CallServerStream(context.Background(), NewRequest(&in)); err == nil {
				for ss.Receive() {
				}
				_ = ss.Close()
			}
		default:
			bs := client.CallBidiStream(context.Background())
			_ = bs.Send(&in)
			_ = bs.CloseRequest()
			for {
				if _, err := bs.Receive(); err != nil {
					break
				}
			}
			_ = bs.CloseResponse()
		}
		check(calls == 0 && !tr.panicked, "a call that does not panic never reaches the recovery function")
		callNo = 1
		c16Log = nil
	}
	switch kind {
	case 0:
		_, callErr = client.CallUnary(context.Background(), NewRequest(&in))
		if callErr == nil {
			got = 1
		}
	case 1:
		cs := client.CallClientStream(context.Background())
		_ = cs.Send(&in)
		_, callErr = cs.CloseAndReceive()
		if callErr == nil {
			got = 1
		}
	case 2:
		ss, err := client.CallServerStream(context.Background(), NewRequest(&in))
		if err != nil {
			callErr = err
		} else {
			for ss.Receive() {
				got++
			}
			callErr = ss.Err()
			_ = ss.Close()
		}
	default:
		bs := client.CallBidiStream(context.Background())
		_ = bs.Send(&in)
		_ = bs.CloseRequest()
		for {
			_, err := bs.Receive()
			if err != nil {
				if !errors.Is(err, errEOF()) {
					callErr = err
				}
				break
			}
			got++
			if got > 3 {
				break
			}
		}
		_ = bs.CloseResponse()
	}
	switch {
	case point == 2:
		check(calls == 0, "a call that does not panic never reaches the recovery function")
		check(callErr == nil && got == 1, "a call that does not panic is unaffected")
		check(!tr.panicked, "a call that does not panic does not panic")
	case pv == 4:
		check(calls == 0, "the abort sentinel is not handed to the recovery function")
		check(tr.panicked && c19Same(4, tr.panicVal), "the abort sentinel is re-raised untouched out of ServeHTTP")
	default:
		check(!tr.panicked, "a recovered panic does not escape ServeHTTP")
		check(calls == 1, "the recovery function is called exactly once")
		check(c19Same(pv, seen), "the recovery function receives the recovered value")
		check(callErr != nil, "a panicking call is never delivered as success")
		if callErr != nil {
			check(CodeOf(callErr) == CodeDataLoss, "the client receives the error the recovery function returned")
			ce, ok := asError(callErr)
			wantMsg := "recovered"
			if pv == 3 {
				wantMsg = "recovered: "
			}
			if pv == 6 {
				wantMsg = "recovered: " + errC19Context.Error()
			}
			if pv == 7 {
				wantMsg = "recovered: " + errC19EOF.Error()
			}
			check(ok && ce.Message() == wantMsg, "the client receives the message the recovery function returned")
		}
		if point == 1 {
			check(got == 1, "messages sent before the panic are delivered")
		}
	}
}
