package main

import (
	"strings"

	"google.golang.org/protobuf/compiler/protogen"
	"google.golang.org/protobuf/reflect/protoreflect"
	"google.golang.org/protobuf/types/descriptorpb"
	"google.golang.org/protobuf/types/pluginpb"
)

// C17 - generated code routes every RPC at its canonical path.
// Only the generator's own string kernels are decided here (procedureName,
// reflectionName, unexport); see DESIGN.md for what is not applicable.

// Descriptor stand-ins: the protoreflect interfaces are embedded (nil) and
// only the accessors the kernels use are overridden.
type fakeFile struct {
	protoreflect.FileDescriptor
	pkg protoreflect.FullName
}

func (f fakeFile) Package() protoreflect.FullName { return f.pkg }

type fakeService struct {
	protoreflect.ServiceDescriptor
	name protoreflect.Name
	file fakeFile
}

func (s fakeService) Name() protoreflect.Name { return s.name }
func (s fakeService) FullName() protoreflect.FullName {
	if s.file.pkg == "" {
		return protoreflect.FullName(s.name)
	}
	return s.file.pkg + "." + protoreflect.FullName(s.name)
}
func (s fakeService) ParentFile() protoreflect.FileDescriptor { return s.file }

type fakeMethod struct {
	protoreflect.MethodDescriptor
	name             protoreflect.Name
	streamC, streamS bool
	deprecated       bool
	svc              fakeService
}

func (m fakeMethod) IsStreamingClient() bool { return m.streamC }
func (m fakeMethod) IsStreamingServer() bool { return m.streamS }
func (m fakeMethod) FullName() protoreflect.FullName {
	return m.svc.FullName() + "." + protoreflect.FullName(m.name)
}
func (m fakeMethod) Options() protoreflect.ProtoMessage {
	if m.deprecated {
		t := true
		return &descriptorpb.MethodOptions{Deprecated: &t}
	}
	return (*descriptorpb.MethodOptions)(nil)
}
func (s fakeService) Options() protoreflect.ProtoMessage { return (*descriptorpb.ServiceOptions)(nil) }

func (m fakeMethod) Name() protoreflect.Name { return m.name }

func identBytes(name string, n int) string {
	s := nondetString(name, n)
	assume(len(s) > 0)
	for i := 0; i < len(s); i++ {
		// (lower-case letters only: the character class does not matter to the
		// path kernels and a single range keeps the path count small)
		assume(s[i] >= 'a' && s[i] <= 'z')
	}
	return s
}

// HarnessC17Paths: for symbolic package (absent, single, dotted), service and
// method names the procedure path is "/<fully-qualified service>/<method>"
// and the mount prefix "/<fully-qualified service>/".
//
//verif:harness property=C17
func HarnessC17Paths() {
	var pkg string
	switch nondetChoice("package", 3) {
	case 0:
		pkg = ""
	case 1:
		pkg = identBytes("pkg", 2)
	default:
		pkg = identBytes("pkgA", 2) + "." + identBytes("pkgB", 2)
	}
	svc := identBytes("service", bound("nameLen", 2, 3))
	meth := identBytes("method", bound("nameLen", 2, 3))
	service := &protogen.Service{Desc: fakeService{name: protoreflect.Name(svc), file: fakeFile{pkg: protoreflect.FullName(pkg)}}, GoName: svc}
	method := &protogen.Method{Desc: fakeMethod{name: protoreflect.Name(meth)}, GoName: meth, Parent: service}
	fq := svc
	if pkg != "" {
		fq = pkg + "." + svc
	}
	check(procedureName(method) == "/"+fq+"/"+meth, "the procedure path is /<fully-qualified service>/<method>")
	check("/"+reflectionName(service)+"/" == "/"+fq+"/", "the mount prefix is /<fully-qualified service>/")
	// a second service in the same generator run, whose method may carry the
	// same name: every (service, method) pair gets its own path, and asking
	// again gives the same answer (the path is emitted three times per method)
	svc2 := identBytes("service2", 2)
	meth2 := meth
	if !nondetBool("sameMethodName") {
		meth2 = identBytes("method2", 2)
	}
	service2 := &protogen.Service{Desc: fakeService{name: protoreflect.Name(svc2), file: fakeFile{pkg: protoreflect.FullName(pkg)}}, GoName: svc2}
	method2 := &protogen.Method{Desc: fakeMethod{name: protoreflect.Name(meth2)}, GoName: meth2, Parent: service2}
	fq2 := svc2
	if pkg != "" {
		fq2 = pkg + "." + svc2
	}
	check(procedureName(method2) == "/"+fq2+"/"+meth2, "a second service's procedure path is its own")
	check(procedureName(method) == "/"+fq+"/"+meth, "the procedure path is stable across calls")
}

var goKeywords = []string{"break", "default", "func", "interface", "select", "case", "defer", "go", "map", "struct",
	"chan", "else", "goto", "package", "switch", "const", "fallthrough", "if", "range", "type", "continue", "for",
	"import", "return", "var"}

// HarnessC17Unexport: for every GoName [A-Z][a-z]{0,10} the identifier the
// generator derives for the client struct field is a valid, non-keyword Go
// identifier, and different names stay different.
//
//verif:harness property=C17
func HarnessC17Unexport() {
	name := nondetString("goName", bound("goNameLen", 11, 11))
	assume(len(name) > 0 && name[0] >= 'A' && name[0] <= 'Z')
	for i := 1; i < len(name); i++ {
		assume(name[i] >= 'a' && name[i] <= 'z')
	}
	field := unexport(name)
	for _, kw := range goKeywords {
		check(field != kw, "a field name derived from a method name is never a Go keyword")
	}
	check(len(field) > 0 && (field[0] == '_' || (field[0] >= 'a' && field[0] <= 'z')), "the derived field name is an unexported identifier")
	// injective: the original name can be recovered
	rest := field
	if rest[0] == '_' {
		rest = rest[1:]
	}
	check(len(rest) == len(name) && rest[1:] == name[1:] && rest[0] == name[0]+('a'-'A'), "distinct method names give distinct field names")
}

// c17Printed collects what the generator prints through
// (*protogen.GeneratedFile).P on the symbolic side (one element per call).
var c17Printed []string

//verif:stub (*google.golang.org/protobuf/compiler/protogen.GeneratedFile).P@genP
func stubGeneratedFileP(g *protogen.GeneratedFile, v ...interface{}) {
	line := ""
	for _, x := range v {
		switch x := x.(type) {
		case string:
			line += x
		case protogen.GoIdent:
			line += x.GoName // (natively: qualified with the package name)
		default:
			panic("stubGeneratedFileP: only strings and identifiers are modelled")
		}
	}
	c17Printed = append(c17Printed, line)
}

// HarnessC17Comments: whatever leading comment a method, service or file
// carries (any text over letters, blanks and line breaks) and whether or not
// it is deprecated, every line the generator prints for it is a Go line
// comment - the piece of "emits syntactically valid Go" that depends on
// descriptor text.
//
//verif:harness property=C17 stubs=genP
func HarnessC17Comments() {
	text := nondetString("comment", bound("commentLen", 5, 6))
	for i := 0; i < len(text); i++ {
		assume(text[i] == 'a' || text[i] == ' ' || text[i] == '\n' || text[i] == '/')
	}
	deprecated := nondetBool("deprecated")
	g := &protogen.GeneratedFile{}
	c17Printed = nil
	leadingComments(g, protogen.Comments(text), deprecated)
	var out string
	var contentErr error
	if verifSymbolic() {
		for _, l := range c17Printed {
			out += l + "\n"
		}
	} else {
		var b []byte
		b, contentErr = g.Content()
		out = string(b)
	}
	check(contentErr == nil, "the printed text is retrievable")
	if text == "" && !deprecated {
		check(out == "", "nothing is printed for an absent comment")
	}
	if deprecated {
		check(len(out) > 0, "a deprecated element gets a deprecation notice")
	}
	// every printed line is a line comment
	start := 0
	for i := 0; i <= len(out); i++ {
		if i == len(out) || out[i] == '\n' {
			line := out[start:i]
			start = i + 1
			if i == len(out) && line == "" {
				break
			}
			check(len(line) >= 2 && line[0] == '/' && line[1] == '/', "every line printed for a leading comment is a Go line comment")
		}
	}
}

//verif:stub (*google.golang.org/protobuf/compiler/protogen.GeneratedFile).QualifiedGoIdent@genP
func stubQualifiedGoIdent(g *protogen.GeneratedFile, ident protogen.GoIdent) string {
	return ident.GoName
}

// wrapComments (word-wrapped doc comments built from fixed English text) is
// not the subject of the constructor harness: stubbed to print nothing.
//
//verif:stub github.com/bufbuild/connect-go/cmd/protoc-gen-connect-go.wrapComments@genWrap
func stubWrapComments(g *protogen.GeneratedFile, elems ...any) {}

// c17NewFile: the zero GeneratedFile is enough on the symbolic side (P is
// stubbed); natively a real one is needed (identifier qualification).
func c17NewFile() *protogen.GeneratedFile {
	if verifSymbolic() {
		return &protogen.GeneratedFile{}
	}
	gen, err := protogen.Options{}.New(&pluginpb.CodeGeneratorRequest{})
	if err != nil {
		panic(err)
	}
	return gen.NewGeneratedFile("out.txt", "example.com/out")
}

func c17Text(g *protogen.GeneratedFile) []string {
	if verifSymbolic() {
		return c17Printed
	}
	b, err := g.Content()
	if err != nil {
		panic(err)
	}
	return strings.Split(string(b), "\n")
}

func c17Kind(c, s bool) (handler, call string) {
	switch {
	case c && !s:
		return "NewClientStreamHandler(", ".CallClientStream(ctx)"
	case !c && s:
		return "NewServerStreamHandler(", ".CallServerStream(ctx, req)"
	case c && s:
		return "NewBidiStreamHandler(", ".CallBidiStream(ctx)"
	}
	return "NewUnaryHandler(", ".CallUnary(ctx, req)"
}

// HarnessC17Constructors: generateServerConstructor, generateClientImplementation
// and generateClientMethod executed for a service (package absent or present, symbolic names) with two
// methods of symbolic streaming kinds: each method is mounted exactly once,
// at its canonical path, with the constructor of its kind, and labelled with
// the same path; the mount prefix returned is "/<fully-qualified service>/";
// the client method calls the stream constructor of the same kind.
//
//verif:harness property=C17 stubs=genP,genWrap
func HarnessC17Constructors() {
	pkg := ""
	if nondetBool("hasPackage") {
		pkg = identBytes("pkg", 2)
	}
	svcName := identBytes("service", 2)
	fsvc := fakeService{name: protoreflect.Name(svcName), file: fakeFile{pkg: protoreflect.FullName(pkg)}}
	service := &protogen.Service{Desc: fsvc, GoName: "S" + svcName}
	fq := svcName
	if pkg != "" {
		fq = pkg + "." + svcName
	}
	msg := &protogen.Message{GoIdent: protogen.GoIdent{GoName: "Msg", GoImportPath: "example.com/out"}}
	type mk struct {
		name   string
		c, s   bool
		method *protogen.Method
	}
	var ms []mk
	for i := 0; i < 2; i++ {
		name := []string{"a", "b"}[i] + identBytes("method", 1)
		c, s := nondetBool("streamingClient"), nondetBool("streamingServer")
		m := &protogen.Method{
			Desc:   fakeMethod{name: protoreflect.Name(name), streamC: c, streamS: s, deprecated: nondetBool("deprecated"), svc: fsvc},
			GoName: "M" + name, Parent: service, Input: msg, Output: msg,
		}
		service.Methods = append(service.Methods, m)
		ms = append(ms, mk{name, c, s, m})
	}
	names := newNames(service)
	g := c17NewFile()
	c17Printed = nil
	generateServerConstructor(g, service, names)
	lines := c17Text(g)
	for _, m := range ms {
		path := "/" + fq + "/" + m.name
		hk, _ := c17Kind(m.c, m.s)
		mounts := 0
		for i, l := range lines {
			if strings.HasPrefix(l, `mux.Handle("`+path+`", `) {
				mounts++
				check(strings.HasSuffix(l, hk), "a method is mounted with the handler constructor of its streaming kind")
				check(i+2 < len(lines) && strings.TrimSpace(lines[i+1]) == `"`+path+`",`, "the Spec is labelled with the same canonical path the handler is mounted at")
				check(i+2 < len(lines) && strings.TrimSpace(lines[i+2]) == "svc."+m.method.GoName+",", "the mounted handler calls the method's own implementation")
			}
		}
		check(mounts == 1, "every method is mounted exactly once at /<fully-qualified service>/<method>")
	}
	returns := 0
	for _, l := range lines {
		if strings.HasPrefix(strings.TrimSpace(l), "return ") {
			returns++
			check(strings.TrimSpace(l) == `return "/`+fq+`/", mux`, "the mount prefix returned is /<fully-qualified service>/")
		}
	}
	check(returns == 1, "the constructor returns once")
	// the client constructor builds one typed client per method at the same path
	g3 := c17NewFile()
	c17Printed = nil
	generateClientImplementation(g3, service, names)
	clines := c17Text(g3)
	for _, m := range ms {
		path := "/" + fq + "/" + m.name
		field := unexport(m.method.GoName) + ": "
		built := 0
		for i, l := range clines {
			t := strings.TrimSpace(l)
			if strings.HasPrefix(t, field) && strings.Contains(t, "NewClient[") {
				built++
				check(i+2 < len(clines) && strings.TrimSpace(clines[i+1]) == "httpClient,", "the method's client is built on the caller's HTTP client")
				check(i+2 < len(clines) && strings.TrimSpace(clines[i+2]) == `baseURL + "`+path+`",`, "the method's client is constructed at the same canonical path the handler is mounted at")
			}
		}
		check(built == 1, "the client constructor builds exactly one client per method")
	}
	for _, m := range ms {
		g2 := c17NewFile()
		c17Printed = nil
		generateClientMethod(g2, service, m.method, names)
		_, ck := c17Kind(m.c, m.s)
		calls := 0
		for _, l := range c17Text(g2) {
			t := strings.TrimSpace(l)
			if strings.HasPrefix(t, "return c.") {
				calls++
				check(t == "return c."+unexport(m.method.GoName)+ck, "the client method calls the constructor matching the method's streaming kind on the method's own client")
			}
		}
		check(calls == 1, "the client method makes exactly one call")
	}
}

func c17GoName(name string, n int) string {
	s := nondetString(name, n)
	assume(len(s) > 0 && s[0] >= 'A' && s[0] <= 'Z')
	for i := 1; i < len(s); i++ {
		assume((s[i] >= 'a' && s[i] <= 'z') || s[i] == '_' || (s[i] >= 'A' && s[i] <= 'B'))
	}
	return s
}

// HarnessC17UnexportInjective: a Go method name (letters and underscores, as
// protoc-gen-go produces them) and its neighbours - the same name with one
// or two underscores appended, or with a trailing underscore removed - never
// get the same struct field name, whatever escaping the generator applies to
// keywords: a duplicate field would not type-check.
//
//verif:harness property=C17
func HarnessC17UnexportInjective() {
	a := c17GoName("goNameA", bound("goNamePairLen", 8, 9))
	var b string
	switch nondetChoice("neighbour", 3) {
	case 0:
		b = a + "_"
	case 1:
		b = a + "__"
	default:
		assume(len(a) > 1 && a[len(a)-1] == '_')
		b = a[:len(a)-1]
	}
	check(unexport(a) != unexport(b), "two different method names never share a client field name")
}
