package main

import (
	"google.golang.org/protobuf/compiler/protogen"
	"google.golang.org/protobuf/reflect/protoreflect"
)

// C17 - generated code routes every RPC at its canonical path.
// Only the generator's own string kernels are decided here (procedureName,
// reflectionName, unexport); see DESIGN.md for what is not applicable.

// Descriptor stand-ins: the protoreflect interfaces are embedded (nil) and
// only the accessors the kernels use are overridden.
type fakeFile struct {
	protoreflect.FileDescriptor
	pkg protoreflect.FullName
}

func (f fakeFile) Package() protoreflect.FullName { return f.pkg }

type fakeService struct {
	protoreflect.ServiceDescriptor
	name protoreflect.Name
	file fakeFile
}

func (s fakeService) Name() protoreflect.Name { return s.name }
func (s fakeService) FullName() protoreflect.FullName {
	if s.file.pkg == "" {
		return protoreflect.FullName(s.name)
	}
	return s.file.pkg + "." + protoreflect.FullName(s.name)
}
func (s fakeService) ParentFile() protoreflect.FileDescriptor { return s.file }

type fakeMethod struct {
	protoreflect.MethodDescriptor
	name protoreflect.Name
}

func (m fakeMethod) Name() protoreflect.Name { return m.name }

func identBytes(name string, n int) string {
	s := nondetString(name, n)
	assume(len(s) > 0)
	for i := 0; i < len(s); i++ {
		// (lower-case letters only: the character class does not matter to the
		// path kernels and a single range keeps the path count small)
		assume(s[i] >= 'a' && s[i] <= 'z')
	}
	return s
}

// HarnessC17Paths: for symbolic package (absent, single, dotted), service and
// method names the procedure path is "/<fully-qualified service>/<method>"
// and the mount prefix "/<fully-qualified service>/".
//
//verif:harness property=C17
func HarnessC17Paths() {
	var pkg string
	switch nondetChoice("package", 3) {
	case 0:
		pkg = ""
	case 1:
		pkg = identBytes("pkg", 2)
	default:
		pkg = identBytes("pkgA", 2) + "." + identBytes("pkgB", 2)
	}
	svc := identBytes("service", bound("nameLen", 2, 3))
	meth := identBytes("method", bound("nameLen", 2, 3))
	service := &protogen.Service{Desc: fakeService{name: protoreflect.Name(svc), file: fakeFile{pkg: protoreflect.FullName(pkg)}}, GoName: svc}
	method := &protogen.Method{Desc: fakeMethod{name: protoreflect.Name(meth)}, GoName: meth, Parent: service}
	fq := svc
	if pkg != "" {
		fq = pkg + "." + svc
	}
	check(procedureName(method) == "/"+fq+"/"+meth, "the procedure path is /<fully-qualified service>/<method>")
	check("/"+reflectionName(service)+"/" == "/"+fq+"/", "the mount prefix is /<fully-qualified service>/")
	// a second service in the same generator run, whose method may carry the
	// same name: every (service, method) pair gets its own path, and asking
	// again gives the same answer (the path is emitted three times per method)
	svc2 := identBytes("service2", 2)
	meth2 := meth
	if !nondetBool("sameMethodName") {
		meth2 = identBytes("method2", 2)
	}
	service2 := &protogen.Service{Desc: fakeService{name: protoreflect.Name(svc2), file: fakeFile{pkg: protoreflect.FullName(pkg)}}, GoName: svc2}
	method2 := &protogen.Method{Desc: fakeMethod{name: protoreflect.Name(meth2)}, GoName: meth2, Parent: service2}
	fq2 := svc2
	if pkg != "" {
		fq2 = pkg + "." + svc2
	}
	check(procedureName(method2) == "/"+fq2+"/"+meth2, "a second service's procedure path is its own")
	check(procedureName(method) == "/"+fq+"/"+meth, "the procedure path is stable across calls")
}

var goKeywords = []string{"break", "default", "func", "interface", "select", "case", "defer", "go", "map", "struct",
	"chan", "else", "goto", "package", "switch", "const", "fallthrough", "if", "range", "type", "continue", "for",
	"import", "return", "var"}

// HarnessC17Unexport: for every GoName [A-Z][a-z]{0,10} the identifier the
// generator derives for the client struct field is a valid, non-keyword Go
// identifier, and different names stay different.
//
//verif:harness property=C17
func HarnessC17Unexport() {
	name := nondetString("goName", bound("goNameLen", 11, 11))
	assume(len(name) > 0 && name[0] >= 'A' && name[0] <= 'Z')
	for i := 1; i < len(name); i++ {
		assume(name[i] >= 'a' && name[i] <= 'z')
	}
	field := unexport(name)
	for _, kw := range goKeywords {
		check(field != kw, "a field name derived from a method name is never a Go keyword")
	}
	check(len(field) > 0 && (field[0] == '_' || (field[0] >= 'a' && field[0] <= 'z')), "the derived field name is an unexported identifier")
	// injective: the original name can be recovered
	rest := field
	if rest[0] == '_' {
		rest = rest[1:]
	}
	check(len(rest) == len(name) && rest[1:] == name[1:] && rest[0] == name[0]+('a'-'A'), "distinct method names give distinct field names")
}

// c17Printed collects what the generator prints through
// (*protogen.GeneratedFile).P on the symbolic side (one element per call).
var c17Printed []string

//verif:stub (*google.golang.org/protobuf/compiler/protogen.GeneratedFile).P@genP
func stubGeneratedFileP(g *protogen.GeneratedFile, v ...interface{}) {
	line := ""
	for _, x := range v {
		s, ok := x.(string)
		if !ok {
			panic("stubGeneratedFileP: only strings are modelled")
		}
		line += s
	}
	c17Printed = append(c17Printed, line)
}

// HarnessC17Comments: whatever leading comment a method, service or file
// carries (any text over letters, blanks and line breaks) and whether or not
// it is deprecated, every line the generator prints for it is a Go line
// comment - the piece of "emits syntactically valid Go" that depends on
// descriptor text.
//
//verif:harness property=C17 stubs=genP
func HarnessC17Comments() {
	text := nondetString("comment", bound("commentLen", 5, 6))
	for i := 0; i < len(text); i++ {
		assume(text[i] == 'a' || text[i] == ' ' || text[i] == '\n' || text[i] == '/')
	}
	deprecated := nondetBool("deprecated")
	g := &protogen.GeneratedFile{}
	c17Printed = nil
	leadingComments(g, protogen.Comments(text), deprecated)
	var out string
	var contentErr error
	if verifSymbolic() {
		for _, l := range c17Printed {
			out += l + "\n"
		}
	} else {
		var b []byte
		b, contentErr = g.Content()
		out = string(b)
	}
	check(contentErr == nil, "the printed text is retrievable")
	if text == "" && !deprecated {
		check(out == "", "nothing is printed for an absent comment")
	}
	if deprecated {
		check(len(out) > 0, "a deprecated element gets a deprecation notice")
	}
	// every printed line is a line comment
	start := 0
	for i := 0; i <= len(out); i++ {
		if i == len(out) || out[i] == '\n' {
			line := out[start:i]
			start = i + 1
			if i == len(out) && line == "" {
				break
			}
			check(len(line) >= 2 && line[0] == '/' && line[1] == '/', "every line printed for a leading comment is a Go line comment")
		}
	}
}
