package connect

import (
	"context"
	"errors"
	"io"
	"net/http"
	"time"

	errorv1 "github.com/bufbuild/connect-go/internal/gen/connect/error/v1"
)

func errEOF() error { return io.EOF }

// ---- shared harness environment objects (plain Go, executed symbolically
// and reused unchanged for native replay) ----

// byteCodec is a Codec whose messages are *[]byte: Marshal returns the
// bytes, Unmarshal copies them.  Codec is a public plug-in interface.
type byteCodec struct{ name string }

func (c *byteCodec) Name() string {
	if c.name == "" {
		return "bytes"
	}
	return c.name
}

func (c *byteCodec) Marshal(m any) ([]byte, error) {
	switch v := m.(type) {
	case *[]byte:
		return append([]byte{}, (*v)...), nil
	case []byte:
		return append([]byte{}, v...), nil
	}
	return nil, errors.New("byteCodec: unsupported message type")
}

func (c *byteCodec) Unmarshal(data []byte, m any) error {
	v, ok := m.(*[]byte)
	if !ok {
		return errors.New("byteCodec: unsupported message type")
	}
	*v = append((*v)[:0], data...)
	return nil
}

// deadlineCtx is a context.Context with a deadline and nothing else.
type deadlineCtx struct {
	deadline time.Time
	has      bool
	err      error
}

func (c *deadlineCtx) Deadline() (time.Time, bool) { return c.deadline, c.has }
func (c *deadlineCtx) Done() <-chan struct{}         { return nil }
func (c *deadlineCtx) Err() error                    { return c.err }
func (c *deadlineCtx) Value(any) any                 { return nil }

var _ context.Context = (*deadlineCtx)(nil)

// verifRemaining is what the time.Until stub reports.
var verifRemaining time.Duration

//verif:stub time.Until@clock
func stubTimeUntil(t time.Time) time.Duration { return verifRemaining }

func bytesEq(a, b []byte) bool {
	if len(a) != len(b) {
		return false
	}
	for i := range a {
		if a[i] != b[i] {
			return false
		}
	}
	return true
}

// chunkReader delivers data in chunks whose sizes are solver-chosen
// (1..min(len(p), remaining)); end-of-file arrives together with the last
// bytes or on a separate call (eofWithLast).
type chunkReader struct {
	data        []byte
	pos         int
	eofWithLast bool
	reads       int
}

func (r *chunkReader) Read(p []byte) (int, error) {
	r.reads++
	if r.pos >= len(r.data) {
		return 0, errEOF()
	}
	if len(p) == 0 {
		return 0, nil
	}
	max := len(r.data) - r.pos
	if max > len(p) {
		max = len(p)
	}
	n := nondetInt("chunk")
	assume(n >= 1 && n <= max)
	copy(p, r.data[r.pos:r.pos+n])
	r.pos += n
	if r.pos == len(r.data) && r.eofWithLast {
		return n, errEOF()
	}
	return n, nil
}

// wholeReader delivers as much as fits per Read; EOF separately.
type wholeReader struct {
	data []byte
	pos  int
}

func (r *wholeReader) Read(p []byte) (int, error) {
	if r.pos >= len(r.data) {
		return 0, errEOF()
	}
	n := copy(p, r.data[r.pos:])
	r.pos += n
	return n, nil
}

// byteSink collects written bytes; the failAt-th Write call (1-based) fails.
type byteSink struct {
	b      []byte
	writes int
	failAt int
	err    error
}

func (s *byteSink) Write(p []byte) (int, error) {
	s.writes++
	if s.failAt != 0 && s.writes >= s.failAt {
		return 0, s.err
	}
	s.b = append(s.b, p...)
	return len(p), nil
}

var errOpaqueTransport = errors.New("transport: connection reset")

// faultReader delivers data[:cut] (in one piece) and then fails with the
// chosen terminal condition: 0 = io.EOF, 1 = io.ErrUnexpectedEOF, 2 = an
// opaque transport error.
type faultReader struct {
	data   []byte
	cut    int
	kind   int
	pos    int
	closed int
	// faulted: the consumer was handed the transport error at least once
	faulted bool
}

func (r *faultReader) terminal() error {
	switch r.kind {
	case 0:
		return io.EOF
	case 1:
		return io.ErrUnexpectedEOF
	}
	return errOpaqueTransport
}

func (r *faultReader) Read(p []byte) (int, error) {
	if r.pos >= r.cut {
		if r.kind != 0 {
			r.faulted = true
		}
		return 0, r.terminal()
	}
	n := copy(p, r.data[r.pos:r.cut])
	r.pos += n
	return n, nil
}

func (r *faultReader) Close() error {
	r.closed++
	return nil
}

// ---- JSON / protojson stubs (symbolic side only) -------------------------------
// encoding/json and protojson are reflection-driven and not encoded.  On the
// symbolic side the entry points connect-go uses are replaced by a private,
// length-prefixed codec for exactly the values connect-go puts through them
// (the wire error {code, message} and the end-of-stream message {error,
// metadata}).  It is lossless on that domain - which is what is trusted about
// the real encoders - and rejects everything else.  The empty end-of-stream
// message is "{}", byte-identical to the real encoder's output, so that cut
// offsets coincide in native replays.

func putStr(out []byte, s string) []byte {
	out = append(out, byte(len(s)))
	return append(out, s...)
}

func getStr(data []byte, pos int) (string, int, bool) {
	if pos >= len(data) {
		return "", pos, false
	}
	n := int(data[pos])
	if pos+1+n > len(data) {
		return "", pos, false
	}
	return string(data[pos+1 : pos+1+n]), pos + 1 + n, true
}

var errStubDomain = errors.New("stub: value outside the modelled domain")

//verif:stub (*github.com/bufbuild/connect-go.protoJSONCodec).Marshal@wire
func stubProtoJSONMarshal(c *protoJSONCodec, message any) ([]byte, error) {
	if m, ok := message.(*errorv1.Error); ok {
		return putStr(putStr([]byte{'E'}, m.Code), m.Message), nil
	}
	return nil, errStubDomain
}

//verif:stub (*github.com/bufbuild/connect-go.protoJSONCodec).Unmarshal@wire
func stubProtoJSONUnmarshal(c *protoJSONCodec, data []byte, message any) error {
	m, ok := message.(*errorv1.Error)
	if !ok {
		return errStubDomain
	}
	if len(data) < 1 || data[0] != 'E' {
		return errStubDomain
	}
	code, pos, ok1 := getStr(data, 1)
	msg, pos, ok2 := getStr(data, pos)
	if !ok1 || !ok2 || pos != len(data) {
		return errStubDomain
	}
	m.Code, m.Message = code, msg
	return nil
}

//verif:stub encoding/json.Marshal@json
func stubJSONMarshal(v any) ([]byte, error) {
	switch m := v.(type) {
	case *connectWireError:
		return m.MarshalJSON()
	case *connectEndStreamMessage:
		if m.Error == nil && len(m.Trailer) == 0 {
			return []byte("{}"), nil
		}
		out := []byte{'S'}
		if m.Error != nil {
			e, err := m.Error.MarshalJSON()
			if err != nil {
				return nil, err
			}
			out = putStr(append(out, 1), string(e))
		} else {
			out = append(out, 0)
		}
		out = append(out, byte(len(m.Trailer)))
		for k, vs := range m.Trailer {
			out = putStr(out, k)
			out = append(out, byte(len(vs)))
			for _, x := range vs {
				out = putStr(out, x)
			}
		}
		return out, nil
	}
	return nil, errStubDomain
}

//verif:stub encoding/json.Unmarshal@json
func stubJSONUnmarshal(data []byte, v any) error {
	switch m := v.(type) {
	case *connectWireError:
		return m.UnmarshalJSON(data)
	case *connectEndStreamMessage:
		if string(data) == "{}" {
			return nil
		}
		if len(data) < 3 || data[0] != 'S' {
			return errStubDomain
		}
		pos := 2
		if data[1] == 1 {
			e, p, ok := getStr(data, pos)
			if !ok {
				return errStubDomain
			}
			pos = p
			m.Error = &connectWireError{}
			if err := m.Error.UnmarshalJSON([]byte(e)); err != nil {
				return err
			}
		}
		if pos >= len(data) {
			return errStubDomain
		}
		nk := int(data[pos])
		pos++
		if nk > 0 {
			m.Trailer = make(http.Header)
		}
		for i := 0; i < nk; i++ {
			k, p, ok := getStr(data, pos)
			if !ok || p >= len(data) {
				return errStubDomain
			}
			nv := int(data[p])
			pos = p + 1
			var vs []string
			for j := 0; j < nv; j++ {
				x, p2, ok := getStr(data, pos)
				if !ok {
					return errStubDomain
				}
				vs = append(vs, x)
				pos = p2
			}
			m.Trailer[k] = vs
		}
		return nil
	}
	return errStubDomain
}

func closedChan() chan struct{} {
	c := make(chan struct{})
	close(c)
	return c
}

// ---- xorCompressor: a Compressor/Decompressor pair simple enough to encode ----
// compress(x) = 0xC5 marker byte followed by x with every byte XOR 0x5A.
// The decompressor reads the whole source on the first Read after Reset
// and fails if the marker is missing (a "corrupt" message).  It also accepts
// a run-length form (0xC6, n, b) that expands to n bytes.

type xorCompressor struct {
	w      io.Writer
	wrote  bool
	closed bool
	resets int
}

func (c *xorCompressor) Reset(w io.Writer) { c.w = w; c.wrote = false; c.closed = false; c.resets++ }
func (c *xorCompressor) Write(p []byte) (int, error) {
	if !c.wrote {
		c.wrote = true
		if _, err := c.w.Write([]byte{0xC5}); err != nil {
			return 0, err
		}
	}
	out := make([]byte, len(p))
	for i, b := range p {
		out[i] = b ^ 0x5A
	}
	if _, err := c.w.Write(out); err != nil {
		return 0, err
	}
	return len(p), nil
}
func (c *xorCompressor) Close() error {
	if !c.wrote {
		c.wrote = true
		if _, err := c.w.Write([]byte{0xC5}); err != nil {
			return err
		}
	}
	c.closed = true
	return nil
}

type xorDecompressor struct {
	src      io.Reader
	started  bool
	buf      []byte
	pos      int
	err      error
	resets   int
	closes   int
	readsSinceReset int
	failClose bool
}

var errCorrupt = errors.New("xor: corrupt input")

func (d *xorDecompressor) Reset(r io.Reader) error {
	d.src = r
	d.started = false
	d.buf = nil
	d.pos = 0
	d.err = nil
	d.resets++
	d.readsSinceReset = 0
	return nil
}

func (d *xorDecompressor) Read(p []byte) (int, error) {
	d.readsSinceReset++
	if !d.started {
		d.started = true
		all, err := io.ReadAll(d.src)
		if err != nil {
			d.err = err
		} else if len(all) == 3 && all[0] == 0xC6 {
			// run-length form: 0xC6, n, b -> n copies of b (a message that
			// is small on the wire and large once decompressed)
			d.buf = make([]byte, int(all[1]))
			for i := range d.buf {
				d.buf[i] = all[2] ^ 0x5A
			}
		} else if len(all) == 0 || all[0] != 0xC5 {
			d.err = errCorrupt
		} else {
			d.buf = make([]byte, len(all)-1)
			for i, b := range all[1:] {
				d.buf[i] = b ^ 0x5A
			}
		}
	}
	if d.err != nil {
		return 0, d.err
	}
	if d.pos >= len(d.buf) {
		return 0, io.EOF
	}
	if len(p) == 0 {
		return 0, nil
	}
	n := copy(p, d.buf[d.pos:])
	d.pos += n
	return n, nil
}

func (d *xorDecompressor) Close() error {
	d.closes++
	return nil
}

func newXorPool() *compressionPool {
	return newCompressionPool(
		func() Decompressor { return &xorDecompressor{} },
		func() Compressor { return &xorCompressor{} },
	)
}

// ---- gzipLikeDecompressor ------------------------------------------------------
// A Decompressor with the life cycle of compress/gzip.Reader, which the
// default options register: Reset reads and checks the stream header at once
// (and fails on a corrupt one), and a Reader that has never been reset
// successfully has no inner decompressor: Close dereferences nil.  The
// format is the xorCompressor's.

type gzipLikeDecompressor struct {
	inner *xorDecompressor
}

func (d *gzipLikeDecompressor) Reset(r io.Reader) error {
	var head [1]byte
	n, err := io.ReadFull(r, head[:])
	if n < 1 || err != nil {
		if err == nil || err == io.EOF {
			err = io.ErrUnexpectedEOF
		}
		return err
	}
	if head[0] != 0xC5 {
		return errCorrupt
	}
	if d.inner == nil {
		d.inner = &xorDecompressor{}
	}
	return d.inner.Reset(io.MultiReader(&wholeReader{data: []byte{0xC5}}, r))
}

func (d *gzipLikeDecompressor) Read(p []byte) (int, error) { return d.inner.Read(p) }

func (d *gzipLikeDecompressor) Close() error { return d.inner.closeInner() }

func (d *xorDecompressor) closeInner() error {
	d.closes++ // d == nil: invalid memory address, as (*gzip.Reader).Close on a fresh Reader
	return nil
}
