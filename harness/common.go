package connect

import (
	"context"
	"errors"
	"time"
)

// ---- shared harness environment objects (plain Go, executed symbolically
// and reused unchanged for native replay) ----

// byteCodec is a Codec whose messages are *[]byte: Marshal returns the
// bytes, Unmarshal copies them.  Codec is a public plug-in interface.
type byteCodec struct{ name string }

func (c *byteCodec) Name() string {
	if c.name == "" {
		return "bytes"
	}
	return c.name
}

func (c *byteCodec) Marshal(m any) ([]byte, error) {
	switch v := m.(type) {
	case *[]byte:
		return append([]byte{}, (*v)...), nil
	case []byte:
		return append([]byte{}, v...), nil
	}
	return nil, errors.New("byteCodec: unsupported message type")
}

func (c *byteCodec) Unmarshal(data []byte, m any) error {
	v, ok := m.(*[]byte)
	if !ok {
		return errors.New("byteCodec: unsupported message type")
	}
	*v = append((*v)[:0], data...)
	return nil
}

// deadlineCtx is a context.Context with a deadline and nothing else.
type deadlineCtx struct {
	deadline time.Time
	has      bool
	err      error
}

func (c *deadlineCtx) Deadline() (time.Time, bool) { return c.deadline, c.has }
func (c *deadlineCtx) Done() <-chan struct{}         { return nil }
func (c *deadlineCtx) Err() error                    { return c.err }
func (c *deadlineCtx) Value(any) any                 { return nil }

var _ context.Context = (*deadlineCtx)(nil)

// verifRemaining is what the time.Until stub reports.
var verifRemaining time.Duration

//verif:stub time.Until@clock
func stubTimeUntil(t time.Time) time.Duration { return verifRemaining }

func bytesEq(a, b []byte) bool {
	if len(a) != len(b) {
		return false
	}
	for i := range a {
		if a[i] != b[i] {
			return false
		}
	}
	return true
}
