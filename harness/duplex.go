package connect

import (
	"errors"
	"io"
	"net/http"
	"strings"
	"sync"
)

// duplexTransport is a full-duplex HTTPClient (HTTP/2-like), the counterpart
// of the half-duplex stackTransport: the real Handler runs on its own
// goroutine, the response becomes available to the client as soon as the
// handler has written its header (first Write/WriteHeader/Flush, or its
// return), and the client reads response bytes while the handler is still
// running and while the client itself is still sending.  Request bytes flow
// through the library's own io.Pipe.  When the handler returns, the
// transport closes the request body (as net/http does when a stream ends),
// which is what makes a late client Send fail instead of block.
type duplexTransport struct {
	handler    *Handler
	bodyCloses *int
	served     int
	w          *streamWriter
}

// streamWriter is the handler's http.ResponseWriter.  Header bookkeeping
// follows net/http's rules through the embedded recorder.
type streamWriter struct {
	mu           sync.Mutex
	rec          *recWriter
	readPos      int
	done         bool
	readerClosed bool
	ready        chan struct{} // closed once the response header is available
	readyClosed  bool
	more         chan struct{} // capacity 1: new bytes, or the handler finished
}

func newStreamWriter() *streamWriter {
	return &streamWriter{rec: newRecWriter(), ready: make(chan struct{}), more: make(chan struct{}, 1)}
}

func (w *streamWriter) signalReadyLocked() {
	if !w.readyClosed {
		w.readyClosed = true
		close(w.ready)
	}
}

func (w *streamWriter) notify() {
	select {
	case w.more <- struct{}{}:
	default:
	}
}

func (w *streamWriter) Header() http.Header { return w.rec.Header() }

func (w *streamWriter) WriteHeader(status int) {
	w.mu.Lock()
	w.rec.WriteHeader(status)
	w.signalReadyLocked()
	w.mu.Unlock()
}

var errStreamClosed = errors.New("transport: stream closed by the client")

func (w *streamWriter) Write(p []byte) (int, error) {
	w.mu.Lock()
	if w.readerClosed {
		w.mu.Unlock()
		return 0, errStreamClosed
	}
	n, err := w.rec.Write(p)
	w.signalReadyLocked()
	w.mu.Unlock()
	w.notify()
	return n, err
}

func (w *streamWriter) Flush() {
	w.mu.Lock()
	w.rec.Flush()
	w.signalReadyLocked()
	w.mu.Unlock()
}

func (w *streamWriter) finishHandler() {
	w.mu.Lock()
	if !w.rec.wroteHeader {
		w.rec.WriteHeader(http.StatusOK)
	}
	w.done = true
	w.signalReadyLocked()
	w.mu.Unlock()
	w.notify()
}

// streamBody is the response body handed to the client.
type streamBody struct {
	w      *streamWriter
	resp   *http.Response
	closes *int
}

func (b *streamBody) Read(p []byte) (int, error) {
	w := b.w
	for {
		w.mu.Lock()
		if w.readerClosed {
			w.mu.Unlock()
			return 0, errors.New("http: read on closed response body")
		}
		if w.readPos < len(w.rec.body) {
			if len(p) == 0 {
				w.mu.Unlock()
				return 0, nil
			}
			n := copy(p, w.rec.body[w.readPos:])
			w.readPos += n
			w.mu.Unlock()
			return n, nil
		}
		if w.done {
			// trailers become visible when the body reaches its end
			for k, v := range w.rec.header {
				if strings.HasPrefix(k, http.TrailerPrefix) {
					b.resp.Trailer[strings.TrimPrefix(k, http.TrailerPrefix)] = trimFieldValues(v)
				}
			}
			w.mu.Unlock()
			return 0, io.EOF
		}
		w.mu.Unlock()
		<-w.more
	}
}

func (b *streamBody) Close() error {
	if b.closes != nil {
		*b.closes++
	}
	b.w.mu.Lock()
	b.w.readerClosed = true
	b.w.mu.Unlock()
	return nil
}

func (t *duplexTransport) Do(req *http.Request) (*http.Response, error) {
	t.served++
	sreq := &http.Request{
		Method:     req.Method,
		URL:        req.URL,
		Proto:      "HTTP/2.0",
		ProtoMajor: 2,
		Header:     req.Header.Clone(),
		Body:       req.Body,
	}
	w := newStreamWriter()
	t.w = w
	go func() {
		t.handler.ServeHTTP(w, sreq)
		w.finishHandler()
		// the stream is over: the transport stops reading the request
		_ = req.Body.Close()
	}()
	<-w.ready
	w.mu.Lock()
	header := make(http.Header)
	for k, v := range w.rec.sent {
		if strings.HasPrefix(k, http.TrailerPrefix) {
			continue
		}
		header[k] = trimFieldValues(v)
	}
	status := w.rec.status
	w.mu.Unlock()
	resp := &http.Response{
		Status:     http.StatusText(status),
		StatusCode: status,
		ProtoMajor: 2,
		Header:     header,
		Trailer:    make(http.Header),
		Request:    req,
	}
	resp.Body = &streamBody{w: w, resp: resp, closes: t.bodyCloses}
	return resp, nil
}
