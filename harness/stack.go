package connect

import (
	"bytes"
	"context"
	"encoding/binary"
	"errors"
	"io"
	"net/http"
	"strings"

	statusv1 "github.com/bufbuild/connect-go/internal/gen/connectext/grpc/status/v1"
)

// ---- full-stack harness plumbing: real Client <-> stub transport <-> real Handler ----

// stackCodec is registered under the name "proto" on both sides.  Messages are
// *[]byte; the gRPC status message (needed for error transport) gets a
// private fixed layout.  Error details are not carried (outside the claim).
type stackCodec struct{ name string }

func (c *stackCodec) Name() string {
	if c.name == "" {
		return codecNameProto
	}
	return c.name
}

func (c *stackCodec) Marshal(m any) ([]byte, error) {
	switch v := m.(type) {
	case *[]byte:
		return append([]byte{}, (*v)...), nil
	case *statusv1.Status:
		out := make([]byte, 4, 4+len(v.Message))
		binary.BigEndian.PutUint32(out, uint32(v.Code))
		return append(out, v.Message...), nil
	}
	return nil, errors.New("stackCodec: unsupported message type")
}

func (c *stackCodec) Unmarshal(data []byte, m any) error {
	switch v := m.(type) {
	case *[]byte:
		*v = append([]byte{}, data...)
		return nil
	case *statusv1.Status:
		if len(data) < 4 {
			return errors.New("stackCodec: short status")
		}
		v.Code = int32(binary.BigEndian.Uint32(data))
		v.Message = string(data[4:])
		return nil
	}
	return errors.New("stackCodec: unsupported message type")
}

// recWriter records what a handler writes, following net/http's rules: the
// header map is snapshotted at the first WriteHeader/Write; keys set later
// are sent only if they carry http.TrailerPrefix.
type recWriter struct {
	header      http.Header
	sent        http.Header
	status      int
	body        []byte
	wroteHeader bool
	headerCalls int
	flushes     int
}

func newRecWriter() *recWriter { return &recWriter{header: make(http.Header)} }

func (w *recWriter) Header() http.Header { return w.header }

func (w *recWriter) WriteHeader(status int) {
	w.headerCalls++
	if w.wroteHeader {
		return
	}
	w.wroteHeader = true
	w.status = status
	w.sent = w.header.Clone()
}

func (w *recWriter) Write(p []byte) (int, error) {
	if !w.wroteHeader {
		w.WriteHeader(http.StatusOK)
	}
	w.body = append(w.body, p...)
	return len(p), nil
}

func (w *recWriter) Flush() {
	w.flushes++
	if !w.wroteHeader {
		w.WriteHeader(http.StatusOK)
	}
}

// finish computes the response as a client would see it.
func (w *recWriter) finish() (status int, header, trailer http.Header, body []byte) {
	if !w.wroteHeader {
		w.WriteHeader(http.StatusOK)
	}
	header = make(http.Header)
	trailer = make(http.Header)
	for k, v := range w.sent {
		if strings.HasPrefix(k, http.TrailerPrefix) {
			continue
		}
		header[k] = trimFieldValues(v)
	}
	for k, v := range w.header {
		if strings.HasPrefix(k, http.TrailerPrefix) {
			trailer[strings.TrimPrefix(k, http.TrailerPrefix)] = trimFieldValues(v)
		}
	}
	return w.status, header, trailer, w.body
}

// trimFieldValues: HTTP strips optional whitespace (SP / HTAB) around field
// values - net/http does so when it writes a header - so the transport model
// does too.
func trimFieldValues(vs []string) []string {
	out := make([]string, len(vs))
	for i, v := range vs {
		for len(v) > 0 && (v[0] == ' ' || v[0] == '\t') {
			v = v[1:]
		}
		for len(v) > 0 && (v[len(v)-1] == ' ' || v[len(v)-1] == '\t') {
			v = v[:len(v)-1]
		}
		out[i] = v
	}
	return out
}

// stackTransport is the HTTPClient handed to the real Client: it serves the
// request with the real Handler (reading the request body straight from the
// client's pipe) and turns the recorded response into an *http.Response.
type stackTransport struct {
	handler    *Handler
	protoMajor int
	rec        *recWriter
	served     int
	reqHeader  http.Header
	reqCtx     context.Context
	mutate     func(*http.Response)
	bodyCloses *int
	reqBody    []byte
	keepRequestOpen bool
	catchPanic bool
	panicked   bool
	panicVal   any
}

// teeBody records the request bytes the handler consumed.
type teeBody struct {
	io.ReadCloser
	t *stackTransport
}

func (b *teeBody) Read(p []byte) (int, error) {
	n, err := b.ReadCloser.Read(p)
	b.t.reqBody = append(b.t.reqBody, p[:n]...)
	return n, err
}

// Close: the handler closing its request body reaches the client's pipe only
// through the transport; a transport that keeps the request open does not
// pass it on.
func (b *teeBody) Close() error {
	if b.t.keepRequestOpen {
		return nil
	}
	return b.ReadCloser.Close()
}

type countingBody struct {
	io.Reader
	closes *int
}

func (b *countingBody) Close() error {
	if b.closes != nil {
		*b.closes++
	}
	return nil
}

func (t *stackTransport) Do(req *http.Request) (*http.Response, error) {
	t.served++
	t.reqHeader = req.Header
	major := t.protoMajor
	if major == 0 {
		major = 2
	}
	sreq := &http.Request{
		Method:     req.Method,
		URL:        req.URL,
		Proto:      "HTTP/x",
		ProtoMajor: major,
		Header:     req.Header.Clone(),
		Body:       &teeBody{ReadCloser: req.Body, t: t},
	}
	if t.reqCtx != nil {
		sreq = sreq.WithContext(t.reqCtx)
	}
	rec := newRecWriter()
	t.rec = rec
	func() {
		if t.catchPanic {
			defer func() {
				if r := recover(); r != nil {
					t.panicked = true
					t.panicVal = r
				}
			}()
		}
		t.handler.ServeHTTP(rec, sreq)
	}()
	if t.panicked {
		// net/http would abort the response
		_ = req.Body.Close()
		return nil, errors.New("transport: server aborted the response")
	}
	// a real server drains/closes the request body when the handler returns
	// (keepRequestOpen models a transport that leaves that to the client)
	if !t.keepRequestOpen {
		_ = req.Body.Close()
	}
	status, header, trailer, body := rec.finish()
	resp := &http.Response{
		Status:     http.StatusText(status),
		StatusCode: status,
		ProtoMajor: major,
		Header:     header,
		Trailer:    trailer,
		Body:       &countingBody{Reader: bytes.NewReader(body), closes: t.bodyCloses},
		Request:    req,
	}
	if t.mutate != nil {
		t.mutate(resp)
	}
	return resp, nil
}

const stackURL = "http://h.test/pkg.Svc/Method"

// protocol options: 0 = Connect, 1 = gRPC, 2 = gRPC-Web
func stackClientOptions(proto int, extra ...ClientOption) []ClientOption {
	// gzip is always registered and cannot be encoded: keep it out of the
	// data path with a large compress-min-bytes unless a harness overrides it.
	opts := []ClientOption{WithCodec(&stackCodec{}), WithCompressMinBytes(1 << 20)}
	switch proto {
	case 1:
		opts = append(opts, WithGRPC())
	case 2:
		opts = append(opts, WithGRPCWeb())
	}
	return append(opts, extra...)
}

func stackHandlerOptions(extra ...HandlerOption) []HandlerOption {
	return append([]HandlerOption{WithCodec(&stackCodec{}), WithCompressMinBytes(1 << 20)}, extra...)
}
