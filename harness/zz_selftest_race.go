package connect

import (
	"bytes"
	"sync"
)

// Self-tests of the happens-before monitor (run with GOSMT_RACE_ALL=1, which
// makes harness code count as library code).  Not registered for any property.

//verif:harness property=SELFTEST race=on
func HarnessSelfRacePlain() {
	x := 0
	var wg sync.WaitGroup
	wg.Add(1)
	go func() { defer wg.Done(); x = 1 }()
	x = 2
	wg.Wait()
	check(x != 0, "ran")
}

//verif:harness property=SELFTEST race=on
func HarnessSelfRaceBuffer() {
	buf := &bytes.Buffer{}
	buf.Grow(16)
	done := make(chan struct{})
	go func() { buf.WriteString("abc"); close(done) }()
	_ = buf.Len()
	<-done
	check(buf.Len() == 3, "ran")
}

//verif:harness property=SELFTEST race=on
func HarnessSelfNoRaceMutex() {
	x := 0
	var mu sync.Mutex
	var wg sync.WaitGroup
	wg.Add(1)
	go func() { defer wg.Done(); mu.Lock(); x++; mu.Unlock() }()
	mu.Lock()
	x++
	mu.Unlock()
	wg.Wait()
	check(x == 2, "ran")
}

//verif:harness property=SELFTEST race=on
func HarnessSelfNoRaceChan() {
	x := 0
	c := make(chan int)
	go func() { x = 1; c <- 1 }()
	<-c
	x++
	check(x == 2, "ran")
}

//verif:harness property=SELFTEST race=on
func HarnessSelfRacePoolAlias() {
	pool := sync.Pool{New: func() any { return bytes.NewBuffer(make([]byte, 0, 8)) }}
	b := pool.Get().(*bytes.Buffer)
	b.WriteString("ab")
	alias := b.Bytes()
	pool.Put(b)
	done := make(chan struct{})
	go func() {
		c := pool.Get().(*bytes.Buffer)
		c.Reset()
		c.WriteString("zz")
		close(done)
	}()
	_ = alias[0]
	<-done
	check(true, "ran")
}
