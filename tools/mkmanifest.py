#!/usr/bin/env python3
"""Regenerates /verif/MANIFEST.json from the claims table below."""
import json, os, subprocess
HOOK_COMMIT = subprocess.run(['git','-C','/repo','log','--format=%H','--grep=^hook(verif)','-1'],capture_output=True,text=True).stdout.strip()
V = '/verif'
props = [json.loads(l) for l in open(f'{V}/properties.jsonl')]
TECH = "bounded symbolic execution of /repo's go/ssa + SMT (z3 4.8.12 / z3 5.1.0 / cvc5 1.0 portfolio); counterexamples replayed natively"
claims = json.load(open(f'{V}/tools/claims.json'))
checks = []
for pid in sorted(claims):
    c = claims[pid]
    checks.append({
        "property_id": pid,
        "quick_cmd": f"/verif/check.sh {pid} quick",
        "thorough_cmd": f"/verif/check.sh {pid} thorough",
        "evidence_file": f"/verif/evidence/{pid}.json",
        "replay_cmd_template": "/verif/bin/gosmt replay {path}",
        "engine": "gosmt",
        "level_claimed": {"category": "model_checking", "text": c["text"], "design_ref": "DESIGN.md section 4, " + pid},
        "level_note": c["note"],
        "technique": c.get("tech", TECH),
    })
na_reasons = json.load(open(f'{V}/tools/not_applicable.json'))
na = []
for p in props:
    if p['id'] in claims:
        continue
    na.append({"property_id": p['id'], "reason": na_reasons.get(p['id'], "check not built yet (engine under construction; see DESIGN.md build order)")})
m = {
    "version": 1,
    "setup_cmd": "cd /verif/engine && GOFLAGS=-mod=mod GOPROXY=off GOSUMDB=off GOTOOLCHAIN=local go build -o /verif/bin/gosmt ./cmd/gosmt",
    "hooks": {"guard": "verif",
              "enable": "go test -tags verif (only the native replays of /verif use it: bufferPool.Put then overwrites the released buffer with 0xA5 so that use-after-release reproduces deterministically). Harnesses themselves are injected with go/packages and `go test -overlay` overlays (virtual /repo/zz_verif_*.go files), not committed to /repo",
              "baseline_off_cmd": "cd /repo && go test -mod=mod -json -vet=off -count=1 -timeout 25m ./...",
              "source_commits": [HOOK_COMMIT], "add_only": True},
    "engines": [{"name": "gosmt", "path": "/verif/engine", "serves_properties": sorted(claims),
                 "kind_free_text": "SSA (go/ssa) symbolic interpreter + SMT-LIB2 back ends (z3 4.8.12, z3 5.1.0, cvc5 1.0); path forking by re-execution; delay-bounded schedule exploration with a vector-clock happens-before monitor; native replay of solver models via go test -overlay (data-race candidates via go test -race)"}],
    "checks": checks,
    "not_applicable": na,
    "notes": "exit 0 = all obligations unsat within bounds and witnesses replayed; exit 1 + VIOLATION = counterexample reproduced natively; exit 2 + INCONCLUSIVE = engine could not decide (never a VIOLATION line).",
}
json.dump(m, open(f'{V}/MANIFEST.json', 'w'), indent=1)
print("claimed:", sorted(claims), "not applicable:", [x['property_id'] for x in na])
