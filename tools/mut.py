#!/usr/bin/env python3
"""mut.py <file> <old> <new> -- PROP [harness]  : apply a textual mutation in /repo, run the check, revert."""
import sys, subprocess
f, old, new = sys.argv[1], sys.argv[2], sys.argv[3]
rest = sys.argv[5:]
p = '/repo/' + f
s = open(p).read()
assert old in s, "pattern not found"
open(p, 'w').write(s.replace(old, new, 1))
try:
    b = subprocess.run(['go', 'build', './...'], cwd='/repo', capture_output=True, text=True, env={**__import__('os').environ, 'GOFLAGS': '-mod=mod', 'GOPROXY': 'off'})
    if b.returncode != 0:
        print("MUTANT DOES NOT BUILD", b.stderr[:500])
    else:
        cmd = ['/verif/bin/gosmt', 'check', rest[0], '--noevidence']
        if len(rest) > 1:
            cmd += ['--only', rest[1]]
        r = subprocess.run(cmd, cwd='/verif', capture_output=True, text=True)
        print(r.stdout[-1500:])
        print("exit", r.returncode)
finally:
    subprocess.run(['git', 'checkout', '--', f], cwd='/repo')
