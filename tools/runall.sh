#!/bin/sh
# runs every registered check (tier $1, default quick) and prints one line each
tier=${1:-quick}
for p in C01 C02 C03 C04 C05 C06 C07 C08 C09 C10 C11 C12 C13 C14 C15 C16 C17 C18 C19; do
  s=$(date +%s)
  out=$(/verif/check.sh $p $tier 2>&1); rc=$?
  e=$(date +%s)
  echo "$p rc=$rc $((e-s))s $(echo "$out" | tail -1 | cut -c1-160)"
done
