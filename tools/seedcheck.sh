#!/bin/sh
# seedcheck.sh <seed dir> <PROPERTY> [tier]: run a property's check against a scratch
# worktree of /repo with the seeded change applied (VERIF_REPO); /repo is not touched.
d=$(cd "$1" && pwd); p=$2; tier=${3:-quick}
wt=$(mktemp -d /tmp/seedwt.XXXXXX)
git -C /repo worktree add --detach "$wt" HEAD >/dev/null 2>&1 || { echo "cannot create worktree"; exit 2; }
cleanup() { git -C /repo worktree remove --force "$wt" >/dev/null 2>&1; git -C /repo worktree prune; }
trap cleanup EXIT
( cd "$wt" && git apply "$d/patch.diff" ) || { echo "patch does not apply"; exit 2; }
export GOFLAGS=-mod=mod GOPROXY=off GOSUMDB=off
( cd "$wt" && go build ./... ) || { echo "does not build"; exit 2; }
VERIF_REPO="$wt" VERIF_DIR=/verif ${GOSMT:-/verif/bin/gosmt} check "$p" --tier "$tier" --noevidence | grep -v "^  Harness" | tail -8
