#!/bin/sh
# seedcheck.sh <seed dir> <PROPERTY> [tier] : apply a seeded change to /repo, run the property's check, undo.
d=$1; p=$2; tier=${3:-quick}
cd /repo || exit 2
git diff --quiet || { echo "/repo is dirty"; exit 2; }
git apply "$d/patch.diff" || { echo "patch does not apply"; exit 2; }
export GOFLAGS=-mod=mod GOPROXY=off GOSUMDB=off
go build ./... || { git checkout -- .; echo "does not build"; exit 2; }
/verif/bin/gosmt check "$p" --tier "$tier" | grep -v "^  Harness" | tail -12
rc=$?
git checkout -- .
git status --short | head -3
exit $rc
