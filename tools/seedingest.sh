#!/bin/sh
# seedingest.sh <PROP> <suffix> <demo regex>: verify the sub-agent's change in /tmp/seed/<PROP>, store it as seeded/<PROP><suffix>, run the check.
p=$1; suf=$2; re=$3
res=$(/verif/tools/seedverify.sh ${SEEDBASE:-/tmp/seed}/$p "$re" 2>&1 | tail -1)
echo "$p verify: $res"
case "$res" in *"suite_with_change=pass demo_with_change=fail demo_without_change=pass"*) ;; *) echo "NOT CONFIRMED"; exit 1;; esac
d=/verif/seeded/${p}${suf}; mkdir -p $d
cp ${SEEDBASE:-/tmp/seed}/$p/_seed/patch.diff $d/
for f in ${SEEDBASE:-/tmp/seed}/$p/_seed/*_test.go ${SEEDBASE:-/tmp/seed}/$p/_seed/*.go; do [ -f "$f" ] && cp "$f" $d/; done
python3 - <<PY
import json
m=json.load(open('${SEEDBASE:-/tmp/seed}/$p/_seed/meta.json'))
out={"id":"${p}${suf}","property":"$p","breaks":m.get("summary"),"needs":m.get("needs"),"files":m.get("files"),"demo_cmd_of_author":m.get("demo_cmd"),
 "author":"independent sub-agent given only the property text and a scratch worktree",
 "confirmed_by_me":"tools/seedverify.sh in the agent's scratch worktree: full existing suite passes with the change; demo fails with it; demo passes without it"}
json.dump(out,open('$d/meta.json','w'),indent=1)
PY
/verif/tools/seedcheck.sh $d $p 2>&1 | grep -v counterexample | tail -3 | cut -c1-220
