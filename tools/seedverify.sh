#!/bin/sh
# seedverify.sh <worktree> <demo test regex> : confirm a seeded change independently:
# builds + full suite passes with it, demo fails with it, demo passes without it.
wt=$1; re=$2
export GOFLAGS=-mod=mod GOPROXY=off GOSUMDB=off
cd "$wt" || exit 2
git checkout -q -- . 2>/dev/null; rm -f ./zz_seeddemo_test.go
git apply _seed/patch.diff || { echo "RESULT patch-does-not-apply"; exit 1; }
go build ./... || { echo "RESULT does-not-build"; exit 1; }
if go test -vet=off -count=1 ./... >/tmp/seedverify_suite.log 2>&1; then suite=pass; else suite=FAIL; fi
cp _seed/demo_test.go ./zz_seeddemo_test.go
if go test -vet=off -count=1 -run "$re" . >/tmp/seedverify_with.log 2>&1; then with=pass; else with=fail; fi
rm -f ./zz_seeddemo_test.go
git checkout -q -- .
cp _seed/demo_test.go ./zz_seeddemo_test.go
if go test -vet=off -count=1 -run "$re" . >/tmp/seedverify_without.log 2>&1; then without=pass; else without=fail; fi
rm -f ./zz_seeddemo_test.go
echo "RESULT suite_with_change=$suite demo_with_change=$with demo_without_change=$without"
